// Package engine runs one gocc process (real or instrumented) per simulated
// run inside a scratch module directory and collects everything observable:
// exit status, stdout/stderr, the files left behind, and the simulator's log.
package engine

import (
	"bytes"
	"context"
	"crypto/sha256"
	"encoding/hex"
	"encoding/json"
	"fmt"
	"io/fs"
	"os"
	"os/exec"
	"path/filepath"
	"sort"
	"strconv"
	"strings"
	"syscall"
	"time"

	"verifsim/inject/simrt"
)

const ModuleName = "simwork"

// Spec describes one run.  It is plain data: a replay file embeds it.
type Spec struct {
	GrammarID   string      `json:"grammar"`
	GrammarText string      `json:"grammar_text,omitempty"`
	GrammarFile string      `json:"grammar_file"`          // file name, e.g. g.bnf
	PkgFirst    bool        `json:"pkg_first,omitempty"`   // -p is written before -o on the command line
	OutLink     string      `json:"out_link,omitempty"`    // "name->target": before the run, cwd/name is made a symbolic link to cwd/target (created)
	CwdVia      string      `json:"cwd_via,omitempty"`     // "symlink": the working directory is entered through a symbolic link (and $PWD spells it that way)
	GrammarDir  string      `json:"grammar_dir,omitempty"` // where the grammar file lives, relative to cwd ("" = cwd, "src", ".."); prefix "ABS:" = the argument is an absolute path
	Flags       []string    `json:"flags"`
	OutSpec     string      `json:"out"`            // "" | relative dir | "ABS:<rel>" (absolute path below cwd)
	Pkg         string      `json:"pkg,omitempty"`  // -p value
	Cwd         string      `json:"cwd,omitempty"`  // relative to the module root
	Pre         string      `json:"pre,omitempty"`  // state of the output dir before the run: "" fresh | keep (do not clean)
	Plan        *simrt.Plan `json:"plan,omitempty"` // nil: real binary / identity plan
	GOMAXPROCS  int         `json:"gomaxprocs,omitempty"`
	RaceLog     bool        `json:"race_log,omitempty"` // the binary is a -race build: collect its reports
}

type Op struct {
	N     int
	Call  string
	Path  string
	Size  int
	Fault string
}

type Result struct {
	Exit     int
	TimedOut bool
	Stdout   string
	Stderr   string
	Files    map[string][]byte // path relative to the module root -> content
	LogLines []string
	Ops      []Op
	Ticks    int64
	PermHash string
	Sites    map[string]simrt.SiteStat
	Crashed  bool
	Wall     time.Duration
	RaceText string // race detector reports (RaceLog specs)
}

// Worker owns one module directory and runs specs in it one after the other.
type Worker struct {
	Dir string // <root>/work/wN
	Mod string // Dir/m
}

func NewWorker(root string, n int) (*Worker, error) {
	w := &Worker{Dir: filepath.Join(root, "work", "w"+strconv.Itoa(n))}
	w.Mod = filepath.Join(w.Dir, "m")
	if err := os.MkdirAll(w.Mod, 0o755); err != nil {
		return nil, err
	}
	return w, nil
}

// Clean removes everything in the module directory.
func (w *Worker) Clean() error {
	if err := os.RemoveAll(w.Mod); err != nil {
		return err
	}
	return os.MkdirAll(w.Mod, 0o755)
}

// OutDir is the directory (relative to the module root) the run writes into.
func (s *Spec) OutDir() string {
	o := s.OutSpec
	o = strings.TrimPrefix(o, "ABS:")
	return filepath.Join(s.Cwd, o)
}

// Exec runs bin according to spec.  keep=false cleans the module first.
// Exec runs gocc once.  The wall-clock watchdog only guards the harness against a
// process that hangs outside the tick seam; the time a healthy run needs depends
// on what else the machine is doing, so a run that hits the watchdog is made
// once more with eight times the allowance before it counts as not terminating.
func (w *Worker) Exec(bin string, s *Spec, timeout time.Duration) (*Result, error) {
	r, err := w.exec1(bin, s, timeout)
	if err == nil && r.TimedOut {
		if r2, err2 := w.exec1(bin, s, 8*timeout); err2 == nil {
			return r2, nil
		}
	}
	return r, err
}

func (w *Worker) exec1(bin string, s *Spec, timeout time.Duration) (*Result, error) {
	if s.Pre != "keep" {
		if err := w.Clean(); err != nil {
			return nil, err
		}
	}
	if err := os.WriteFile(filepath.Join(w.Mod, "go.mod"), []byte("module "+ModuleName+"\n\ngo 1.24\n"), 0o644); err != nil {
		return nil, err
	}
	cwd := filepath.Join(w.Mod, s.Cwd)
	if err := os.MkdirAll(cwd, 0o755); err != nil {
		return nil, err
	}
	gfile := s.GrammarFile
	if gfile == "" {
		gfile = "g.bnf"
	}
	gdir := strings.TrimPrefix(s.GrammarDir, "ABS:")
	gpath := filepath.Join(cwd, gdir, gfile)
	if err := os.MkdirAll(filepath.Dir(gpath), 0o755); err != nil {
		return nil, err
	}
	if err := os.WriteFile(gpath, []byte(s.GrammarText), 0o644); err != nil {
		return nil, err
	}
	garg := gfile
	if gdir != "" {
		garg = gdir + "/" + gfile
	}
	if strings.HasPrefix(s.GrammarDir, "ABS:") {
		garg = gpath
	}
	// The same file is the same file: its timestamps do not change between the runs
	// that are compared (a tree that prints the source's modification time is
	// deterministic in the property's sense).
	fixed := time.Date(2020, 1, 1, 0, 0, 0, 0, time.UTC)
	os.Chtimes(gpath, fixed, fixed)
	os.Chtimes(filepath.Join(w.Mod, "go.mod"), fixed, fixed)
	args := append([]string{}, s.Flags...)
	if s.OutLink != "" {
		if name, target, ok := strings.Cut(s.OutLink, "->"); ok {
			os.MkdirAll(filepath.Join(cwd, target), 0o755)
			if _, err := os.Lstat(filepath.Join(cwd, name)); err != nil {
				os.MkdirAll(filepath.Dir(filepath.Join(cwd, name)), 0o755)
				if err := os.Symlink(filepath.Join(cwd, target), filepath.Join(cwd, name)); err != nil {
					return nil, err
				}
			}
		}
	}
	if s.PkgFirst && s.Pkg != "" {
		args = append(args, "-p", s.Pkg)
	}
	if s.OutSpec != "" {
		o := s.OutSpec
		if strings.HasPrefix(o, "ABS:") {
			o = cwd + "/" + strings.TrimPrefix(o, "ABS:") // verbatim: the spelling (trailing slash, ./, //) is part of the configuration
		}
		args = append(args, "-o", o)
	}
	if s.Pkg != "" && !s.PkgFirst {
		args = append(args, "-p", s.Pkg)
	}
	args = append(args, garg)

	// One environment for every run that is ever compared with another (the
	// property speaks of the same file, flags and directory; it does not promise
	// independence from $HOME or $USER, so those are held constant, not varied).
	// HOME and TMPDIR are real, writable, private to the worker, emptied before a
	// fresh run and kept for a re-run in the same directory (state a tool leaves
	// there is part of "running it twice").  Their paths differ between workers, so
	// the checks run every run of one configuration on one worker.
	env := []string{"PATH=/usr/bin:/bin", "HOME=" + filepath.Join(w.Dir, "home"), "GOPATH=/nonexistent/gopath", "GOROOT=/nonexistent", "LANG=C", "USER=sim", "TZ=UTC",
		"TMPDIR=" + filepath.Join(w.Dir, "tmp"), "XDG_CACHE_HOME=" + filepath.Join(w.Dir, "home", ".cache")}
	if s.Pre != "keep" {
		os.RemoveAll(filepath.Join(w.Dir, "home"))
		os.RemoveAll(filepath.Join(w.Dir, "tmp"))
	}
	os.MkdirAll(filepath.Join(w.Dir, "home"), 0o755)
	os.MkdirAll(filepath.Join(w.Dir, "tmp"), 0o755)
	if s.GOMAXPROCS > 0 {
		env = append(env, "GOMAXPROCS="+strconv.Itoa(s.GOMAXPROCS))
	}
	logPath := filepath.Join(w.Dir, "sim.log")
	os.Remove(logPath)
	if s.Plan != nil {
		p := *s.Plan
		p.Root = w.Mod
		p.Log = logPath
		data, _ := json.Marshal(&p)
		planPath := filepath.Join(w.Dir, "plan.json")
		if err := os.WriteFile(planPath, data, 0o644); err != nil {
			return nil, err
		}
		env = append(env, "VERIF_PLAN="+planPath)
	}
	raceLog := filepath.Join(w.Dir, "race")
	if s.RaceLog {
		old, _ := filepath.Glob(raceLog + ".*")
		for _, p := range old {
			os.Remove(p)
		}
		env = append(env, "GORACE=log_path="+raceLog+" halt_on_error=0")
	}
	ctx, cancel := context.WithTimeout(context.Background(), timeout)
	defer cancel()
	// every gocc process runs under an address-space limit: a change that makes gocc
	// blow up must not take the machine down with it
	shArgs := append([]string{"-c", "ulimit -v 8388608; exec \"$0\" \"$@\"", bin}, args...)
	cmd := exec.CommandContext(ctx, "/bin/sh", shArgs...)
	cmd.Dir = cwd
	if s.CwdVia == "symlink" {
		// <worker>/lnk -> <worker>/m ; the process starts in lnk/<cwd> and $PWD says so
		link := filepath.Join(w.Dir, "lnk")
		os.Remove(link)
		if err := os.Symlink(w.Mod, link); err != nil {
			return nil, err
		}
		cmd.Dir = filepath.Join(link, s.Cwd)
		env = append(env, "PWD="+cmd.Dir)
	}
	cmd.Env = env
	var so, se bytes.Buffer
	cmd.Stdout = &so
	cmd.Stderr = &se
	t0 := time.Now()
	err := cmd.Run()
	res := &Result{Stdout: norm(so.String(), w.Mod), Stderr: norm(se.String(), w.Mod), Wall: time.Since(t0)}
	if ctx.Err() == context.DeadlineExceeded {
		res.TimedOut = true
	}
	if err != nil {
		if ee, ok := err.(*exec.ExitError); ok {
			res.Exit = ee.ExitCode()
			if ws, ok := ee.Sys().(syscall.WaitStatus); ok && ws.Signaled() {
				res.Exit = 128 + int(ws.Signal())
			}
		} else {
			return nil, fmt.Errorf("exec %s: %w", bin, err)
		}
	}
	res.Files = map[string][]byte{}
	werr := filepath.WalkDir(w.Mod, func(p string, d fs.DirEntry, err error) error {
		if err != nil {
			return err
		}
		rel, _ := filepath.Rel(w.Mod, p)
		if d.IsDir() || d.Type()&fs.ModeSymlink != 0 {
			return nil // (what was written through a symbolic link is found at its real place)
		}
		if rel == "go.mod" || p == gpath {
			return nil
		}
		data, err := os.ReadFile(p)
		if err != nil {
			return err
		}
		res.Files[filepath.ToSlash(rel)] = data
		return nil
	})
	if werr != nil {
		return nil, werr
	}
	if s.Plan != nil {
		res.parseLog(logPath)
	}
	if s.RaceLog {
		m, _ := filepath.Glob(raceLog + ".*")
		for _, p := range m {
			b, _ := os.ReadFile(p)
			res.RaceText += string(b)
			os.Remove(p)
		}
	}
	return res, nil
}

func norm(s, root string) string {
	s = strings.ReplaceAll(s, root, "$ROOT")
	return strings.ReplaceAll(s, filepath.Join(filepath.Dir(root), "lnk"), "$ROOT")
}

func (r *Result) parseLog(path string) {
	data, err := os.ReadFile(path)
	if err != nil {
		return
	}
	r.Sites = map[string]simrt.SiteStat{}
	for _, line := range strings.Split(strings.TrimRight(string(data), "\n"), "\n") {
		r.LogLines = append(r.LogLines, line)
		f := strings.Fields(line)
		if len(f) == 0 {
			continue
		}
		switch f[0] {
		case "op":
			if len(f) >= 6 {
				n, _ := strconv.Atoi(f[1])
				sz, _ := strconv.Atoi(strings.TrimPrefix(f[len(f)-2], "size="))
				r.Ops = append(r.Ops, Op{N: n, Call: f[2], Path: strings.Join(f[3:len(f)-2], " "), Size: sz, Fault: strings.TrimPrefix(f[len(f)-1], "fault=")})
			} else if len(f) == 5 { // empty path
				n, _ := strconv.Atoi(f[1])
				r.Ops = append(r.Ops, Op{N: n, Call: f[2], Fault: strings.TrimPrefix(f[4], "fault=")})
			}
		case "ticks":
			r.Ticks, _ = strconv.ParseInt(f[1], 10, 64)
		case "permhash":
			r.PermHash = f[1]
		case "crash":
			r.Crashed = true
		case "site":
			var st simrt.SiteStat
			for _, kv := range f[2:] {
				k, v, _ := strings.Cut(kv, "=")
				n, _ := strconv.Atoi(v)
				switch k {
				case "visits":
					st.Visits = n
				case "multi":
					st.Multi = n
				case "permuted":
					st.Permuted = n
				case "maxlen":
					st.MaxLen = n
				}
			}
			r.Sites[f[1]] = st
		}
	}
}

// GoFiles returns the .go files only.
func (r *Result) GoFiles() map[string][]byte {
	out := map[string][]byte{}
	for k, v := range r.Files {
		if strings.HasSuffix(k, ".go") {
			out[k] = v
		}
	}
	return out
}

// TreeHash hashes a file map canonically.
func TreeHash(files map[string][]byte) string {
	names := make([]string, 0, len(files))
	for n := range files {
		names = append(names, n)
	}
	sort.Strings(names)
	h := sha256.New()
	for _, n := range names {
		fmt.Fprintf(h, "%s\x00%d\x00", n, len(files[n]))
		h.Write(files[n])
	}
	return hex.EncodeToString(h.Sum(nil))[:16]
}

// DiffFiles lists paths that differ between two file maps.
func DiffFiles(a, b map[string][]byte) []string {
	var out []string
	for n, x := range a {
		y, ok := b[n]
		if !ok {
			out = append(out, "-"+n)
		} else if !bytes.Equal(x, y) {
			out = append(out, "~"+n)
		}
	}
	for n := range b {
		if _, ok := a[n]; !ok {
			out = append(out, "+"+n)
		}
	}
	sort.Strings(out)
	return out
}
