// Package prng is the simulator's only source of choices: a SplitMix64 stream
// derived from VERIF_SEED.  No global state, no math/rand.
package prng

type R struct{ s uint64 }

func New(seed uint64) *R { return &R{s: seed*0x9e3779b97f4a7c15 + 0x1234567} }

func Mix(x uint64) uint64 {
	x += 0x9e3779b97f4a7c15
	x = (x ^ (x >> 30)) * 0xbf58476d1ce4e5b9
	x = (x ^ (x >> 27)) * 0x94d049bb133111eb
	return x ^ (x >> 31)
}

func (r *R) U64() uint64 {
	r.s += 0x9e3779b97f4a7c15
	z := r.s
	z = (z ^ (z >> 30)) * 0xbf58476d1ce4e5b9
	z = (z ^ (z >> 27)) * 0x94d049bb133111eb
	return z ^ (z >> 31)
}

// Intn returns a value in [0,n). n must be > 0.
func (r *R) Intn(n int) int { return int(r.U64() % uint64(n)) }

func (r *R) Bool() bool { return r.U64()&1 == 1 }

// Chance returns true with probability num/den.
func (r *R) Chance(num, den int) bool { return r.Intn(den) < num }

// Fork derives an independent stream labelled by s.
func (r *R) Fork(s string) *R {
	h := r.U64()
	for i := 0; i < len(s); i++ {
		h = (h ^ uint64(s[i])) * 1099511628211
	}
	return &R{s: Mix(h)}
}

// Sub derives a stream from a seed and a label without consuming state.
func Sub(seed uint64, label string, n int) *R {
	h := Mix(seed)
	for i := 0; i < len(label); i++ {
		h = (h ^ uint64(label[i])) * 1099511628211
	}
	return &R{s: Mix(h + uint64(n)*0x9e3779b97f4a7c15)}
}

func Pick[T any](r *R, xs []T) T { return xs[r.Intn(len(xs))] }

func Shuffle[T any](r *R, xs []T) {
	for i := len(xs) - 1; i > 0; i-- {
		j := r.Intn(i + 1)
		xs[i], xs[j] = xs[j], xs[i]
	}
}
