package corpus

import (
	"fmt"
	"strconv"
	"strings"

	"verifsim/internal/prng"
)

// Node is a node of a derivation tree.  Leaves are tokens.
type Node struct {
	Alt      *Alt    // nil for a token leaf
	Children []*Node // one per Sym of Alt
	TokName  string  // leaf: gocc token id (token name, or the literal's text)
	Lexeme   string  // leaf: the text
	TokIndex int     // leaf: index in the token sequence
	Offset   int     // leaf: byte offset in the rendered text (set by Text)
}

// MaxNodes bounds the size of a derivation tree (deep budgets would otherwise
// grow trees exponentially).
const MaxNodes = 400

// Token is one element of a token sequence.
type Token struct {
	Name   string `json:"name"` // gocc token id
	Lit    string `json:"lit"`
	Offset int    `json:"off"`
}

// Sentence is a derived sentence with everything the checks need.
type Sentence struct {
	Tree   *Node
	Tokens []Token
	Text   string
	nodes  int
	// Expected under fault-free execution:
	Log    []string // one rendered entry per action call, in call order
	Result string   // canonical rendering of the value Parse must return
}

// Derive produces a sentence by seeded leftmost derivation from the start
// symbol with a height budget.
func (g *Grammar) Derive(r *prng.R, budget int) *Sentence {
	if len(g.Prods) == 0 {
		return nil
	}
	start := g.Prods[0].Head
	if budget < g.minH[start] {
		budget = g.minH[start]
	}
	s := &Sentence{}
	s.Tree = g.derive(r, start, budget, s)
	g.layout(r, s)
	if !g.Ambiguous {
		v := g.eval(s.Tree, s)
		s.Result = v
	}
	return s
}

func (g *Grammar) derive(r *prng.R, nt string, budget int, s *Sentence) *Node {
	p := g.prodM[nt]
	var fit []*Alt
	for _, a := range p.Alts {
		if a.Error {
			continue
		}
		if g.altHeight(a) <= budget {
			fit = append(fit, a)
		}
	}
	if len(fit) == 0 {
		panic(fmt.Sprintf("corpus: %s: no alternative of %s fits budget %d", g.ID, nt, budget))
	}
	// prefer growing alternatives while budget is large, so that sentences are not all tiny
	a := prng.Pick(r, fit)
	s.nodes++
	if s.nodes > MaxNodes {
		// size budget spent: finish with the shallowest alternative
		for _, b := range fit {
			if g.altHeight(b) < g.altHeight(a) {
				a = b
			}
		}
	} else if budget > 3 && len(fit) > 1 {
		b := prng.Pick(r, fit)
		if g.altHeight(b) > g.altHeight(a) || len(b.Syms) > len(a.Syms) {
			a = b
		}
	}
	n := &Node{Alt: a}
	for _, sym := range a.Syms {
		switch sym.Kind {
		case NT:
			n.Children = append(n.Children, g.derive(r, sym.Name, budget-1, s))
		case Tok:
			ld := g.LexDefOf(sym.Name)
			lex := sym.Name
			if ld != nil && len(ld.Samples) > 0 {
				lex = prng.Pick(r, ld.Samples)
			}
			leaf := &Node{TokName: sym.Name, Lexeme: lex, TokIndex: len(s.Tokens)}
			s.Tokens = append(s.Tokens, Token{Name: sym.Name, Lit: lex})
			n.Children = append(n.Children, leaf)
		case Lit:
			leaf := &Node{TokName: sym.Name, Lexeme: sym.Name, TokIndex: len(s.Tokens)}
			s.Tokens = append(s.Tokens, Token{Name: sym.Name, Lit: sym.Name})
			n.Children = append(n.Children, leaf)
		}
	}
	return n
}

func (g *Grammar) isLit(name string) bool { return g.LexDefOf(name) == nil }

// layout renders the token sequence to text and fixes offsets.
func (g *Grammar) layout(r *prng.R, s *Sentence) {
	s.Text, s.Tokens = g.Layout(r, s.Tokens)
	var fix func(n *Node)
	fix = func(n *Node) {
		if n.Alt == nil {
			n.Offset = s.Tokens[n.TokIndex].Offset
			return
		}
		for _, c := range n.Children {
			fix(c)
		}
	}
	fix(s.Tree)
}

// Layout concatenates lexemes with seeded separators and returns text plus the
// tokens with their offsets.
func (g *Grammar) Layout(r *prng.R, toks []Token) (string, []Token) {
	seps := g.Seps
	if len(seps) == 0 {
		seps = []string{" "}
	}
	out := make([]Token, len(toks))
	var b strings.Builder
	if r.Chance(1, 4) && seps[0] != "" {
		b.WriteString(prng.Pick(r, seps))
	}
	for i, t := range toks {
		if i > 0 {
			omit := g.Tight && canAbut(toks[i-1].Lit, t.Lit) && r.Chance(1, 2)
			if !omit {
				b.WriteString(prng.Pick(r, seps))
				if r.Chance(1, 6) {
					b.WriteString(prng.Pick(r, seps))
				}
			}
		}
		out[i] = Token{Name: t.Name, Lit: t.Lit, Offset: b.Len()}
		b.WriteString(t.Lit)
	}
	if r.Chance(1, 4) && seps[0] != "" {
		b.WriteString(prng.Pick(r, seps))
	}
	return b.String(), out
}

// RenderTok is the canonical rendering of a token attribute.
func RenderTok(name, lit string, off int) string {
	return "T<" + name + ">" + strconv.Quote(lit) + "@" + strconv.Itoa(off)
}

// eval computes, in post-order, the value of n and appends the expected action
// log entries to s.Log.  This is the harness's own definition of C03's first
// sentence; it never consults gocc.
func (g *Grammar) eval(n *Node, s *Sentence) string {
	if n.Alt == nil {
		return RenderTok(n.TokName, n.Lexeme, n.Offset)
	}
	vals := make([]string, len(n.Children))
	for i, c := range n.Children {
		vals[i] = g.eval(c, s)
	}
	a := n.Alt
	switch a.Action.Kind {
	case ActNone:
		if len(vals) == 0 {
			return "nil"
		}
		return vals[0]
	case ActPass:
		return vals[a.Action.Pass]
	case ActCall:
		args := make([]string, len(a.Action.Args))
		for i, r := range a.Action.Args {
			if r.Const != "" {
				args[i] = "S" + strconv.Quote(r.Val)
				continue
			}
			args[i] = vals[r.Index]
		}
		v := RenderNode(a.Label(), a.Action.Ctx, args)
		s.Log = append(s.Log, v)
		return v
	}
	panic("unreachable")
}

// RenderNode is the canonical rendering of the value an act.N / act.NC call builds.
func RenderNode(id int, ctx bool, args []string) string {
	c := ""
	if ctx {
		c = "c"
	}
	return shorten("N" + strconv.Itoa(id) + c + "(" + strings.Join(args, ",") + ")")
}

// shorten is the same rule as act.Shorten (renderings above 1 KiB become a digest).
func shorten(s string) string {
	if len(s) <= 1024 {
		return s
	}
	h := uint64(14695981039346656037)
	for i := 0; i < len(s); i++ {
		h = (h ^ uint64(s[i])) * 1099511628211
	}
	return "#" + strconv.FormatUint(h, 16) + ":" + strconv.Itoa(len(s))
}

// Mutate returns an abnormal token sequence derived from toks: delete,
// duplicate, swap or substitute tokens.  alphabet is the list of token ids
// with a sample lexeme each.
func (g *Grammar) Mutate(r *prng.R, toks []Token, nmut int) []Token {
	out := append([]Token(nil), toks...)
	alpha := g.Alphabet()
	for m := 0; m < nmut; m++ {
		if len(out) == 0 {
			out = append(out, prng.Pick(r, alpha))
			continue
		}
		i := r.Intn(len(out))
		switch r.Intn(7) {
		case 5: // truncate: the input ends in the middle of a construct
			out = out[:i]
		case 6: // a foreign token deep inside, rest kept
			out[i] = prng.Pick(r, alpha)
		case 0: // delete
			out = append(out[:i], out[i+1:]...)
		case 1: // duplicate
			out = append(out[:i+1], out[i:]...)
		case 2: // swap
			j := r.Intn(len(out))
			out[i], out[j] = out[j], out[i]
		case 3: // substitute
			out[i] = prng.Pick(r, alpha)
		case 4: // insert
			t := prng.Pick(r, alpha)
			out = append(out[:i], append([]Token{t}, out[i:]...)...)
		}
	}
	return out
}

// Alphabet lists every terminal the syntax part or the lexical part knows, with a sample.
func (g *Grammar) Alphabet() []Token {
	var out []Token
	seen := map[string]bool{}
	for _, l := range g.Lex {
		if l.Kind == LexToken && len(l.Samples) > 0 {
			out = append(out, Token{Name: l.Name, Lit: l.Samples[0]})
			seen[l.Name] = true
			for _, smp := range l.Samples {
				if len(smp) > 32 {
					// long lexemes are in the alphabet twice as often: error tokens longer than a
					// typical "clip at n bytes" threshold
					out = append(out, Token{Name: l.Name, Lit: smp}, Token{Name: l.Name, Lit: smp})
				}
			}
		}
	}
	for _, a := range g.alts {
		for _, s := range a.Syms {
			if s.Kind == Lit && !seen[s.Name] {
				seen[s.Name] = true
				out = append(out, Token{Name: s.Name, Lit: s.Name})
			}
			if s.Kind == Tok && !seen[s.Name] {
				seen[s.Name] = true
				out = append(out, Token{Name: s.Name, Lit: s.Name})
			}
		}
	}
	return out
}

func wordChar(c byte) bool {
	return c == '_' || c >= '0' && c <= '9' || c >= 'a' && c <= 'z' || c >= 'A' && c <= 'Z' || c >= 0x80
}

func bracket(c byte) bool { return strings.IndexByte("()[]{};,", c) >= 0 }

// canAbut reports whether two lexemes can be written without a separator
// without any risk of merging into one token: exactly one boundary character
// is a word character, or one of them is a bracket/separator.
func canAbut(a, b string) bool {
	if a == "" || b == "" {
		return false
	}
	x, y := a[len(a)-1], b[0]
	if wordChar(x) != wordChar(y) {
		return x != '.' && y != '.'
	}
	if wordChar(x) {
		return false
	}
	return bracket(x) || bracket(y)
}

// DeriveDeep produces a sentence whose parse needs a stack of at least `depth`
// entries: it finds a nonterminal T that can re-derive itself with at least one
// symbol to its left (right or centre recursion) and unrolls that cycle depth
// times; everything else is derived as shallowly as possible.  It returns nil if
// the grammar has no such cycle.
func (g *Grammar) DeriveDeep(r *prng.R, depth int) *Sentence {
	if len(g.Prods) == 0 {
		return nil
	}
	// reach[A][B]: B occurs in some sentential form derived from A
	reach := map[string]map[string]bool{}
	for _, p := range g.Prods {
		reach[p.Head] = map[string]bool{}
	}
	for changed := true; changed; {
		changed = false
		for _, p := range g.Prods {
			for _, a := range p.Alts {
				if a.Error {
					continue
				}
				for _, s := range a.Syms {
					if s.Kind != NT {
						continue
					}
					if !reach[p.Head][s.Name] {
						reach[p.Head][s.Name] = true
						changed = true
					}
					for b := range reach[s.Name] {
						if !reach[p.Head][b] {
							reach[p.Head][b] = true
							changed = true
						}
					}
				}
			}
		}
	}
	// step(X, T): an alternative of X and a position >= 1 holding a nonterminal that is T or reaches T
	type choice struct {
		alt *Alt
		pos int
	}
	step := func(x, t string) []choice {
		var cs []choice
		for _, a := range g.prodM[x].Alts {
			if a.Error {
				continue
			}
			for i, s := range a.Syms {
				if i >= 1 && s.Kind == NT && (s.Name == t || reach[s.Name][t]) {
					cs = append(cs, choice{a, i})
				}
			}
		}
		return cs
	}
	start := g.Prods[0].Head
	var target string
	var names []string
	for _, p := range g.Prods {
		names = append(names, p.Head)
	}
	for _, t := range names {
		if (t == start || reach[start][t]) && len(step(t, t)) > 0 {
			target = t
			break
		}
	}
	if target == "" {
		return nil
	}
	s := &Sentence{}
	s.nodes = MaxNodes + 1 // everything that is not on the forced path is derived minimally
	remaining := depth
	var forced func(nt string) *Node
	forced = func(nt string) *Node {
		var cs []choice
		if remaining > 0 {
			if nt == target {
				cs = step(nt, target)
			} else if reach[nt][target] {
				// head towards the target: any position will do
				for _, a := range g.prodM[nt].Alts {
					if a.Error {
						continue
					}
					for i, sy := range a.Syms {
						if sy.Kind == NT && (sy.Name == target || reach[sy.Name][target]) {
							cs = append(cs, choice{a, i})
						}
					}
				}
			}
		}
		if len(cs) == 0 {
			return g.derive(r, nt, g.minH[nt], s)
		}
		c := prng.Pick(r, cs)
		if nt == target {
			remaining--
		}
		n := &Node{Alt: c.alt}
		for i, sym := range c.alt.Syms {
			switch {
			case sym.Kind == NT && i == c.pos:
				n.Children = append(n.Children, forced(sym.Name))
			case sym.Kind == NT:
				n.Children = append(n.Children, g.derive(r, sym.Name, g.minH[sym.Name], s))
			default:
				lex := sym.Name
				if sym.Kind == Tok {
					if ld := g.LexDefOf(sym.Name); ld != nil && len(ld.Samples) > 0 {
						lex = prng.Pick(r, ld.Samples)
					}
				}
				n.Children = append(n.Children, &Node{TokName: sym.Name, Lexeme: lex, TokIndex: len(s.Tokens)})
				s.Tokens = append(s.Tokens, Token{Name: sym.Name, Lit: lex})
			}
		}
		return n
	}
	s.Tree = forced(start)
	g.layout(r, s)
	if !g.Ambiguous {
		s.Result = g.eval(s.Tree, s)
	}
	return s
}
