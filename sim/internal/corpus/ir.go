// Package corpus is the workload: grammars as Go values (rendered to gocc BNF;
// none of gocc's own front end is reused), seeded leftmost derivation of
// sentences together with their derivation trees, and the harness's own
// evaluator of the expected action sequence / result.
package corpus

import (
	"fmt"
	"strconv"
	"strings"
)

const (
	LexToken = iota
	LexIgnored
	LexRegDef
)

type LexDef struct {
	Kind    int
	Name    string   // id, !id, _id as written in the grammar
	Pattern string   // gocc pattern text, verbatim
	Samples []string // lexemes of this token that no earlier pattern claims
}

const (
	NT = iota
	Tok
	Lit
)

type Sym struct {
	Kind int
	Name string // NT: production id; Tok: token id; Lit: the literal's text (unquoted)
}

const (
	ActNone = iota // no action: default X[0] / nil for empty
	ActCall        // << act.N(id, args...) >> or act.NC($Context, id, args...)
	ActPass        // << $i, nil >>
	ActRaw         // << Raw >> verbatim (hostile-spelling workload only; no expectation can be derived)
)

type ArgRef struct {
	Index   int
	AsToken bool   // $T<i> instead of $<i>
	Const   string // if non-empty: a Go string literal written verbatim into the action (may span lines) ...
	Val     string // ... and the string value it denotes
}

type Action struct {
	Kind  int
	Args  []ArgRef
	Ctx   bool
	Pass  int
	Raw   string
	Label int // ActCall: if non-zero, the number passed to act.N instead of the alternative's own (lets two actions differ in nothing but a constant)
}

type Alt struct {
	Syms   []Sym // empty => "empty"
	Error  bool  // leading "error" symbol (not part of Syms; attribute index 0 is the error)
	Action Action
	ID     int // global alternative number, assigned by Finish
	Head   string
}

type Prod struct {
	Head string
	Alts []*Alt
}

type Grammar struct {
	ID            string
	Lex           []LexDef
	Prods         []*Prod
	Flags         []string // flags the grammar needs ("-a", "-no_lexer")
	Ambiguous     bool     // derivation tree is not the unique parse tree: no derivation-based expectations
	Tight         bool     // whitespace may be omitted next to literal tokens
	Seps          []string // separators (ignored-token text) used between tokens; default " "
	HeaderImports []string // extra import lines of the file header, e.g. `"fmt"`
	HeaderCode    string   // Go declarations written into the file header after the import block
	RawUsesToken  bool     // a raw action uses a $T form: the header must import the token package
	Big           bool     // about a thousand LR(1) states: seconds per gocc run; quick tiers of C09 skip it
	Heavy         bool     // large tables (seconds to compile): only the checks that name it use it in parser drivers
	GoccOnly      bool     // only used by the checks that run gocc itself (C09, C11), not by the parser drivers
	Optional      bool     // seeded random grammar: dropped (not failed) if gocc refuses it
	NoCompile     bool     // header/actions are not valid Go in the harness module (text taken from elsewhere)
	RawText       string   // if set, the grammar is this text (no IR); only gocc-level checks use it

	alts  []*Alt
	prodM map[string]*Prod
	minH  map[string]int
}

func S(syms ...string) []Sym {
	var out []Sym
	for _, s := range syms {
		switch {
		case strings.HasPrefix(s, "\""):
			out = append(out, Sym{Lit, s[1 : len(s)-1]})
		case s[0] >= 'A' && s[0] <= 'Z':
			out = append(out, Sym{NT, s})
		default:
			out = append(out, Sym{Tok, s})
		}
	}
	return out
}

func A(i int) ArgRef { return ArgRef{Index: i} }

// K is a constant string argument: lit is Go source (e.g. a raw string literal), val its value.
func K(lit, val string) ArgRef { return ArgRef{Const: lit, Val: val} }
func T(i int) ArgRef           { return ArgRef{Index: i, AsToken: true} }

func Call(args ...ArgRef) Action    { return Action{Kind: ActCall, Args: args} }
func CallCtx(args ...ArgRef) Action { return Action{Kind: ActCall, Args: args, Ctx: true} }
func Pass(i int) Action             { return Action{Kind: ActPass, Pass: i} }
func Labelled(l int, args ...ArgRef) Action {
	return Action{Kind: ActCall, Args: args, Label: l}
}

// Finish numbers alternatives and precomputes minimum heights.
func (g *Grammar) Finish() *Grammar {
	g.prodM = map[string]*Prod{}
	g.alts = nil
	for _, p := range g.Prods {
		// a nonterminal may be defined by several rules (with other rules in between):
		// rendering keeps them apart, derivation sees the union of the alternatives
		if m, ok := g.prodM[p.Head]; ok {
			g.prodM[p.Head] = &Prod{Head: p.Head, Alts: append(append([]*Alt{}, m.Alts...), p.Alts...)}
		} else {
			g.prodM[p.Head] = &Prod{Head: p.Head, Alts: append([]*Alt{}, p.Alts...)}
		}
		for _, a := range p.Alts {
			a.ID = len(g.alts) + 1
			a.Head = p.Head
			g.alts = append(g.alts, a)
		}
	}
	g.minH = map[string]int{}
	const inf = 1 << 30
	for _, p := range g.Prods {
		g.minH[p.Head] = inf
	}
	for changed := true; changed; {
		changed = false
		for _, p := range g.Prods {
			for _, a := range p.Alts {
				if a.Error {
					continue
				}
				h := g.altHeight(a)
				if h < g.minH[p.Head] {
					g.minH[p.Head] = h
					changed = true
				}
			}
		}
	}
	return g
}

func (g *Grammar) altHeight(a *Alt) int {
	const inf = 1 << 30
	h := 0
	for _, s := range a.Syms {
		if s.Kind == NT {
			m, ok := g.minH[s.Name]
			if !ok {
				panic("corpus: " + g.ID + ": undefined nonterminal " + s.Name)
			}
			if m >= inf {
				return inf
			}
			if m > h {
				h = m
			}
		}
	}
	return h + 1
}

func (g *Grammar) Alts() []*Alt { return g.alts }

func (g *Grammar) HasSyntax() bool { return len(g.Prods) > 0 || (g.RawText != "" && g.rawHasSyntax()) }

func (g *Grammar) rawHasSyntax() bool {
	// raw grammars declare this through Flags-free convention: a production id starts upper-case at line start
	for _, line := range strings.Split(g.RawText, "\n") {
		l := strings.TrimSpace(line)
		if len(l) > 0 && l[0] >= 'A' && l[0] <= 'Z' {
			return true
		}
	}
	return false
}

func (g *Grammar) NeedsFlag(f string) bool {
	for _, x := range g.Flags {
		if x == f {
			return true
		}
	}
	return false
}

func (g *Grammar) LexDefOf(name string) *LexDef {
	for i := range g.Lex {
		if g.Lex[i].Name == name {
			return &g.Lex[i]
		}
	}
	return nil
}

func (g *Grammar) UsesTokenForm() bool {
	for _, a := range g.alts {
		for _, r := range a.Action.Args {
			if r.AsToken {
				return true
			}
		}
	}
	return g.RawUsesToken
}

// Render produces the gocc BNF text.  pkg is the import path of the generated
// packages (needed for the token import when a $T form is used); actImport is
// the import path of the action stub.
func (g *Grammar) Render(pkg, actImport string) string {
	if g.RawText != "" {
		return g.RawText
	}
	var b strings.Builder
	fmt.Fprintf(&b, "/* workload grammar %s (rendered by verifsim/corpus) */\n\n", g.ID)
	for _, l := range g.Lex {
		fmt.Fprintf(&b, "%s : %s ;\n\n", l.Name, l.Pattern)
	}
	if len(g.Prods) == 0 {
		return b.String()
	}
	uses := false
	for _, a := range g.alts {
		if a.Action.Kind == ActCall || a.Action.Kind == ActRaw {
			uses = true
		}
	}
	if uses {
		b.WriteString("<<\nimport (\n")
		for _, im := range g.HeaderImports {
			fmt.Fprintf(&b, "\t%s\n", im)
		}
		fmt.Fprintf(&b, "\tact %q\n", actImport)
		if g.UsesTokenForm() {
			fmt.Fprintf(&b, "\t%q\n", pkg+"/token")
		}
		b.WriteString(")\n")
		if g.HeaderCode != "" {
			b.WriteString("\n" + g.HeaderCode + "\n")
		}
		b.WriteString(">>\n\n")
	}
	for _, p := range g.Prods {
		fmt.Fprintf(&b, "%s\n", p.Head)
		for i, a := range p.Alts {
			sep := "\t: "
			if i > 0 {
				sep = "\t| "
			}
			b.WriteString(sep)
			b.WriteString(a.bodyText())
			if t := a.actionText(); t != "" {
				b.WriteString("\t" + t)
			}
			b.WriteString("\n")
		}
		b.WriteString("\t;\n\n")
	}
	return b.String()
}

func (a *Alt) bodyText() string {
	var parts []string
	if a.Error {
		parts = append(parts, "error")
	}
	if len(a.Syms) == 0 && !a.Error {
		return "empty"
	}
	for _, s := range a.Syms {
		if s.Kind == Lit {
			parts = append(parts, quoteLit(s.Name))
		} else {
			parts = append(parts, s.Name)
		}
	}
	return strings.Join(parts, " ")
}

func quoteLit(s string) string {
	if strings.ContainsAny(s, "\"\\\n\t\r") && !strings.Contains(s, "`") {
		return "`" + s + "`"
	}
	return strconv.Quote(s)
}

func (a *Alt) actionText() string {
	switch a.Action.Kind {
	case ActPass:
		return fmt.Sprintf("<< $%d, nil >>", a.Action.Pass)
	case ActRaw:
		return "<< " + strings.ReplaceAll(a.Action.Raw, "@ID@", strconv.Itoa(a.ID)) + " >>"
	case ActCall:
		var args []string
		if a.Action.Ctx {
			args = append(args, "$Context")
		}
		args = append(args, strconv.Itoa(a.Label()))
		for _, r := range a.Action.Args {
			switch {
			case r.Const != "":
				args = append(args, r.Const)
			case r.AsToken:
				args = append(args, "$T"+strconv.Itoa(r.Index))
			default:
				args = append(args, "$"+strconv.Itoa(r.Index))
			}
		}
		fn := "act.N"
		if a.Action.Ctx {
			fn = "act.NC"
		}
		return "<< " + fn + "(" + strings.Join(args, ", ") + ") >>"
	}
	return ""
}

// Label is the number the alternative's act.N call carries.
func (a *Alt) Label() int {
	if a.Action.Label != 0 {
		return a.Action.Label
	}
	return a.ID
}

// NumAttr is the number of attributes the reduce function receives.
func (a *Alt) NumAttr() int {
	n := len(a.Syms)
	if a.Error {
		n++
	}
	return n
}

// Shapes says, for every act.N label, what each argument of the call must be:
// "err" (the error attribute of an `error` alternative), "tok:<id>" (a token of
// that type), "tok" (some token), "any" (a nonterminal's attribute), "const".
// Labels shared by alternatives of different shapes are left out.
func (g *Grammar) Shapes() map[int][]string {
	out := map[int][]string{}
	bad := map[int]bool{}
	for _, p := range g.Prods {
		for _, a := range p.Alts {
			if a.Action.Kind != ActCall {
				continue
			}
			sh := make([]string, 0, len(a.Action.Args))
			for _, r := range a.Action.Args {
				switch {
				case r.Const != "":
					sh = append(sh, "const")
				case a.Error && r.Index == 0:
					sh = append(sh, "err")
				default:
					i := r.Index
					if a.Error {
						i--
					}
					if i < 0 || i >= len(a.Syms) {
						sh = append(sh, "any")
						continue
					}
					switch sym := a.Syms[i]; sym.Kind {
					case Tok:
						sh = append(sh, "tok:"+sym.Name)
					case Lit:
						plain := sym.Name != ""
						for _, c := range sym.Name {
							if c < '!' || c > '~' || c == '\\' || c == '"' || c == '`' || c == '\'' {
								plain = false
							}
						}
						if plain {
							sh = append(sh, "tok:"+sym.Name)
						} else {
							sh = append(sh, "tok")
						}
					default:
						sh = append(sh, "any")
					}
				}
			}
			l := a.Label()
			if old, ok := out[l]; ok && strings.Join(old, "|") != strings.Join(sh, "|") {
				bad[l] = true
			}
			out[l] = sh
		}
	}
	for l := range bad {
		delete(out, l)
	}
	return out
}
