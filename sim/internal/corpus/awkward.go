package corpus

import (
	"fmt"
	"strings"
)

// Awkward returns the fixed list of hostile spellings used by C09: characters
// that are special to Go source, to text/template or to fmt, placed in string
// literals, token names and lexical patterns.  Header and actions are valid Go.
func Awkward() []*Grammar {
	var gs []*Grammar
	add := func(g *Grammar) { gs = append(gs, g.Finish()) }
	lit := func(id string, lits ...string) {
		var alts []*Alt
		for _, l := range lits {
			alts = append(alts, &Alt{Syms: []Sym{{Kind: Lit, Name: l}, {Kind: Tok, Name: "id"}}, Action: Call(A(1))})
		}
		add(&Grammar{ID: "awk-" + id, Seps: wsSeps,
			Lex:   append(letters(), LexDef{Kind: LexToken, Name: "id", Pattern: `_letter {_letter}`, Samples: []string{"a", "bc"}}, ws()),
			Prods: []*Prod{P("S", Al(Call(A(0)), "Item"), Al(Call(A(0), A(1)), "S", "Item")), {Head: "Item", Alts: alts}}})
	}
	lit("quote", `"`, `'`)
	lit("backslash", `\`, `\n`)
	lit("backtick", "`", "a`b")
	lit("percent", `%`, `%d`, `%!s(MISSING)`)
	lit("braces", `{{`, `}}`, `{{.}}`)
	lit("nonbmp", "😀", "𝔘𝔫𝔦", "é")
	lit("comment", `*/`, `/*`, `//`)
	lit("gokeywords", "func", "type", "range", "nil", "iota")
	lit("control", "a\nb", "tab\tq", "cr\rx", "\n")
	lit("long-nonascii", "xαβγδεζηθικλμνξοπρστυφχψω", "αβγδεζηθικλμνξοπρστυφχψωαβγδεζηθ", "日本語のとても長いリテラル文字列です。これは三十二バイトを超えます", "aaaaaaaaaaaaaaaaaaaaaaaaaaaaaaaé")
	lit("illegal-in-go", "a\x00b", "x\ufeffy", "\x7f\x01", "\u2028", "\u200e")

	// header code that looks like template, printf or $-syntax to a generator that treats it as anything but opaque text
	hdr := func(name, code string) {
		add(&Grammar{ID: "awk-header-" + name, Seps: wsSeps, HeaderCode: code,
			Lex:   append(letters(), LexDef{Kind: LexToken, Name: "id", Pattern: `_letter {_letter}`, Samples: []string{"a", "bc"}}, ws()),
			Prods: []*Prod{P("S", Al(Call(T(0)), "id"), Al(Call(A(0), T(1)), "S", "id"))}})
	}
	hdr("nested", "var scale_ = [][]int64{{1}}\n\nvar name_ = [][]string{{`x`}}")
	hdr("pairs", "var grid_ = [][][]int{{{2}}, {{3}}}\n\nvar pairs_ = [][]string{{\"a\"}, {\"b\"}}\n\nconst format_ = \"%d %s %% {{.}} {{end}} $0 $T1 $Context\"\n\nvar raw_ = `back\\slash {{ range . }} %v\n second line`\n\ntype pair_ struct{ a, b int }\n\nvar zero_ = []pair_{{}, {1, 2}}")

	// Go keywords and predeclared names as token names and regdef names
	add(&Grammar{ID: "awk-toknames", Seps: wsSeps,
		Lex: []LexDef{
			{Kind: LexRegDef, Name: "_type", Pattern: `'a'-'z'`},
			{Kind: LexToken, Name: "func", Pattern: `'f' _type`, Samples: []string{"fa", "fz"}},
			{Kind: LexToken, Name: "range", Pattern: `'r' _type {_type}`, Samples: []string{"ra", "rzz"}},
			{Kind: LexToken, Name: "string", Pattern: `'s' '0'-'9'`, Samples: []string{"s0"}},
			{Kind: LexToken, Name: "nil", Pattern: `'n' '0'-'9'`, Samples: []string{"n1"}},
			{Kind: LexToken, Name: "token_Type9", Pattern: `'t' '0'-'9'`, Samples: []string{"t2"}},
			{Kind: LexIgnored, Name: "!package", Pattern: wsPattern},
		},
		Prods: []*Prod{P("Import", Al(Call(T(0), T(1), A(2)), "func", "range", "Var"), Al(Call(A(1)), "Import", "Var")),
			P("Var", Al(none, "string"), Al(none, "nil"), Al(Call(T(0)), "token_Type9"))}})

	// special characters as char literals in the lexical part
	add(&Grammar{ID: "awk-charlits", Seps: []string{" "},
		Lex: []LexDef{
			{Kind: LexToken, Name: "special", Pattern: `'\'' | '"' | '` + "`" + `' | '\\' | '%' | '{' '{' | '}' | '*' '/' | '\x00' | 'ÿ' | '\U0010FFFF'`, Samples: []string{"'", `"`, "`", `\`, "%", "{{", "*/"}},
			{Kind: LexToken, Name: "esc", Pattern: `'\a' | '\b' | '\f' | '\v' | '\101' | '\x41' 'x'`, Samples: []string{"\a", "\v", "A", "Ax"}},
			{Kind: LexIgnored, Name: "!sp", Pattern: `' ' | '\n'`},
		},
		Prods: []*Prod{P("S", Al(Call()), Al(Call(A(0), T(1)), "S", "special"), Al(Call(A(0), T(1)), "S", "esc"))}})

	// hostile characters INSIDE action expressions and a header that imports
	// packages the generated file might want for itself
	raw := func(t string) Action { return Action{Kind: ActRaw, Raw: t} }
	add(&Grammar{ID: "awk-actions", Seps: wsSeps, HeaderImports: []string{`"fmt"`, `"strings"`, `"errors"`, `"strconv"`}, RawUsesToken: true, Ambiguous: true,
		Lex: append(letters(), LexDef{Kind: LexToken, Name: "id", Pattern: `_letter {_letter}`, Samples: []string{"a", "bc"}}, ws()),
		Prods: []*Prod{P("S", Al(Call(A(0)), "Item"), Al(Call(A(0), A(1)), "S", "Item")),
			{Head: "Item", Alts: []*Alt{
				{Syms: S(`"q"`, "id"), Action: raw(`act.N(@ID@, $1, '"', "costs $0 dollars", '"', $0)`)},
				{Syms: S(`"b"`, "id"), Action: raw("act.N(@ID@, '`', $1, '`', `raw $0 text`, $T1)")},
				{Syms: S(`"f"`, "id"), Action: raw(`fmt.Sprintf("%d%% of %q", len(strings.TrimSpace(string($T1.Lit))), '\''), nil`)},
				{Syms: S(`"e"`, "id"), Action: raw(`nil, errors.New("bad " + strconv.Quote(fmt.Sprint($1)))`)},
				{Syms: S(`"c"`, "id"), Action: raw(`act.N(@ID@, $1 /* $0 in a comment, "quote */, '\\', "\\", "\"$1\"")`)},
				{Syms: S(`"m"`, "id"), Action: raw(`act.N(@ID@, map[string]interface{}{"$0": $0, "x": []interface{}{$1}}["$0"])`)},
			}}}})

	// repetitions and options whose body can match the empty string (epsilon cycles)
	add(&Grammar{ID: "awk-nullable-lex", Seps: []string{" "},
		Lex: []LexDef{
			{Kind: LexToken, Name: "a", Pattern: `{ { 'a' } } 'b'`, Samples: []string{"b", "ab", "aaab"}},
			{Kind: LexToken, Name: "c", Pattern: `'c' [ [ 'd' ] ] { [ 'e' ] } ( { 'f' } | [ 'g' ] )`, Samples: []string{"c", "cd", "cdeef", "cg"}},
			{Kind: LexRegDef, Name: "_opt", Pattern: `[ 'x' ] { 'y' }`},
			{Kind: LexToken, Name: "h", Pattern: `'h' { _opt } [ { _opt } ]`, Samples: []string{"h", "hxyy", "hyx"}},
			{Kind: LexToken, Name: "k", Pattern: `'k' ` + strings.Repeat(`[ [ 'p' ] ] [ 'q' | [ 'r' ] ] ( [ 's' ] | [ 't' ] ) `, 8), Samples: []string{"k", "kpq", "kprs"}},
			{Kind: LexIgnored, Name: "!sp", Pattern: `' ' { ' ' }`},
		},
		Prods: []*Prod{P("S", Al(Call()), Al(Call(A(0), T(1)), "S", "a"), Al(Call(A(0), T(1)), "S", "c"), Al(Call(A(0), T(1)), "S", "h"), Al(Call(A(0), T(1)), "S", "k"))}})

	// 256 reduce/reduce states: a conflict count that is a multiple of 256 (8-bit exit status)
	{
		var names []*Alt
		var labels []*Alt
		for i := 0; i < 256; i++ {
			kw := fmt.Sprintf("k%03d", i)
			names = append(names, &Alt{Syms: []Sym{{Kind: Lit, Name: kw}}, Action: Call()})
			labels = append(labels, &Alt{Syms: []Sym{{Kind: Lit, Name: kw}}, Action: Call()})
		}
		add(&Grammar{ID: "awk-conf256", GoccOnly: true, Ambiguous: true, Seps: wsSeps,
			Lex:   []LexDef{ws()},
			Prods: []*Prod{P("S", Al(Call(A(0)), "Name"), Al(Call(A(0)), "Label")), {Head: "Name", Alts: names}, {Head: "Label", Alts: labels}}})
	}

	// production names that are prefixes of one another with digits, many alternatives
	{
		var many []*Alt
		for i := 0; i < 13; i++ {
			many = append(many, &Alt{Syms: []Sym{{Kind: Lit, Name: fmt.Sprintf("s%d", i)}, {Kind: Tok, Name: "id"}}, Action: Call(A(1))})
		}
		add(&Grammar{ID: "awk-altnames", Seps: wsSeps,
			Lex: append(letters(), LexDef{Kind: LexToken, Name: "id", Pattern: `_letter {_letter}`, Samples: []string{"a", "bc"}}, ws()),
			Prods: []*Prod{P("Prog", Al(Call(A(0)), "Stmt"), Al(Call(A(0), A(1)), "Prog", "Stmt"), Al(Call(A(0), A(1)), "Prog", "Stmt1"), Al(Call(A(0), A(1)), "Prog", "Stmt11"), Al(Call(A(0), A(1)), "Prog", "Stmt_1")),
				{Head: "Stmt", Alts: many},
				P("Stmt1", Al(Call(A(1)), `"one"`, "id"), Al(Call(A(1)), `"uno"`, "id")),
				P("Stmt11", Al(Call(A(1)), `"eleven"`, "id")),
				P("Stmt_1", Al(Call(A(1)), `"under"`, "id"), Al(Call(A(1)), `"unter"`, "id"))}})
	}

	// production names that collide with identifiers of the generated code
	add(&Grammar{ID: "awk-prodnames", Seps: wsSeps,
		Lex: append(letters(), LexDef{Kind: LexToken, Name: "id", Pattern: `_letter {_letter}`, Samples: []string{"a", "bc"}}, ws()),
		Prods: []*Prod{P("Attrib", Al(Call(A(0)), "ProdTab")), P("ProdTab", Al(Call(A(0)), "Parser"), Al(Call(A(0), A(1)), "ProdTab", "Parser")),
			P("Parser", Al(Call(T(0)), "id"), Al(Call(A(1)), `"("`, "X", `")"`)), P("X", Al(Pass(0), "C")), P("C", Al(Call(T(0)), "id"))}})
	return gs
}
