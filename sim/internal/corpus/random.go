package corpus

import (
	"fmt"

	"verifsim/internal/prng"
)

// Random returns n seeded grammars that are LR(1) by construction, without
// consulting gocc: every alternative of an ordinary nonterminal starts with a
// terminal that no other alternative of that nonterminal starts with (LL(1));
// a nullable nonterminal and a left-recursive list nonterminal are always
// followed, wherever they occur, by a closing terminal dedicated to them.
// They are marked Optional: a check drops one that gocc refuses instead of
// failing (the construction is believed right, but a workload grammar is not
// worth a false alarm).
func Random(seed uint64, n int) []*Grammar {
	var out []*Grammar
	for i := 0; i < n; i++ {
		out = append(out, randomGrammar(prng.Sub(seed, "rnd-grammar", i), fmt.Sprintf("rnd%d", i)))
	}
	return out
}

var litPool = []string{"(", ")", "[", "]", "{", "}", ";", ",", ":", "=", "+", "-", "*", "/", "<", ">", "!", "?", "@", "#", "&", "|", "~", "^",
	"kwa", "kwb", "kwc", "kwd", "kwe", "kwf", "kwg", "kwh", "kwi", "kwj", "kwk", "kwl", "kwm", "kwn", "kwo", "kwp", "kwq", "kwr", "kws", "kwt",
	"->", "=>", "::", "..", "<-", "||", "&&", "==", "!=", "<=", ">=", "++", "--", "**", "%%", "$", "%", "§", "λ", "→"}

func randomGrammar(r *prng.R, id string) *Grammar {
	g := &Grammar{ID: id, Optional: true, Seps: wsSeps,
		Lex: append(letters(),
			LexDef{Kind: LexToken, Name: "id", Pattern: `('x' | 'y' | 'z') {_letter | _digit}`, Samples: []string{"x", "yy", "z9q", "xK"}},
			LexDef{Kind: LexToken, Name: "num", Pattern: `_digit {_digit}`, Samples: []string{"0", "31", "400"}},
			ws())}
	pool := append([]string{}, litPool...)
	prng.Shuffle(r, pool)
	next := 0
	fresh := func() Sym {
		s := pool[next%len(pool)]
		if next >= len(pool) {
			s = fmt.Sprintf("kz%d", next)
		}
		next++
		return Sym{Kind: Lit, Name: s}
	}
	k := 3 + r.Intn(6)
	type ntInfo struct {
		name   string
		kind   int // 0 ordinary, 1 nullable, 2 list
		closer Sym
		sep    Sym
	}
	nts := make([]*ntInfo, k)
	for i := range nts {
		nts[i] = &ntInfo{name: fmt.Sprintf("N%c", 'a'+i)}
		if i > 0 && i < k-1 {
			switch x := r.Intn(10); {
			case x < 3:
				nts[i].kind = 1
			case x < 5:
				nts[i].kind = 2
			}
		} else if i == k-1 && i > 0 && r.Chance(1, 4) {
			nts[i].kind = 1
		}
		if nts[i].kind != 0 {
			nts[i].closer = fresh()
			nts[i].sep = fresh()
		}
	}
	var shared []Sym // literals usable in non-leading positions
	for i := 0; i < 4; i++ {
		shared = append(shared, fresh())
	}
	// ref appends a reference to nonterminal j (plus its closer)
	ref := func(body []Sym, j int) []Sym {
		body = append(body, Sym{Kind: NT, Name: nts[j].name})
		if nts[j].kind != 0 {
			body = append(body, nts[j].closer)
		}
		return body
	}
	terminal := func() Sym {
		switch r.Intn(4) {
		case 0:
			return Sym{Kind: Tok, Name: "id"}
		case 1:
			return Sym{Kind: Tok, Name: "num"}
		default:
			return prng.Pick(r, shared)
		}
	}
	action := func(syms []Sym, isErr bool) Action {
		n := len(syms)
		if n == 0 {
			switch r.Intn(3) {
			case 0:
				return Action{}
			case 1:
				return Call()
			default:
				return CallCtx()
			}
		}
		switch x := r.Intn(10); {
		case x < 2:
			return Action{}
		case x < 3:
			return Pass(r.Intn(n))
		}
		var args []ArgRef
		for i := 0; i < n; i++ {
			if r.Chance(2, 3) {
				a := ArgRef{Index: i}
				if syms[i].Kind != NT && r.Chance(1, 3) {
					a.AsToken = true
				}
				args = append(args, a)
			}
		}
		if r.Chance(1, 4) && len(args) > 1 {
			prng.Shuffle(r, args)
		}
		if r.Chance(1, 5) {
			return CallCtx(args...)
		}
		return Call(args...)
	}
	for i, nt := range nts {
		p := &Prod{Head: nt.name}
		if nt.kind == 2 {
			// left-recursive list over a higher-index nonterminal
			j := i + 1 + r.Intn(k-i-1)
			elem := ref(nil, j)
			rec := append([]Sym{{Kind: NT, Name: nt.name}, nt.sep}, elem...)
			p.Alts = append(p.Alts, &Alt{Syms: elem}, &Alt{Syms: rec})
			for _, a := range p.Alts {
				a.Action = action(a.Syms, false)
			}
			g.Prods = append(g.Prods, p)
			continue
		}
		nalts := 1 + r.Intn(4)
		lead := map[string]bool{}
		for a := 0; a < nalts; a++ {
			var l Sym
			for tries := 0; ; tries++ {
				if r.Chance(1, 4) && tries < 3 {
					l = terminal()
				} else {
					l = fresh()
				}
				key := fmt.Sprint(l.Kind, l.Name)
				if !lead[key] {
					lead[key] = true
					break
				}
			}
			body := []Sym{l}
			n := r.Intn(5)
			if a == 0 && i+1 < k {
				// chain: alternative 0 mentions the next nonterminal (reachability) and
				// only higher-index ones (finite height)
				body = ref(body, i+1)
			}
			for s := 0; s < n && len(body) < 11; s++ {
				if r.Chance(1, 2) {
					body = append(body, terminal())
					continue
				}
				lo := 0
				if a == 0 {
					lo = i + 1
				}
				if lo >= k {
					body = append(body, terminal())
					continue
				}
				body = ref(body, lo+r.Intn(k-lo))
			}
			p.Alts = append(p.Alts, &Alt{Syms: body, Action: action(body, false)})
		}
		if nt.kind == 1 {
			p.Alts = append(p.Alts, &Alt{Action: action(nil, false)})
		}
		g.Prods = append(g.Prods, p)
	}
	return g.Finish()
}
