package corpus

// Random returns n seeded grammars that are LL(1) by construction.
func Random(seed uint64, n int) []*Grammar { return nil }
