package corpus

import (
	"fmt"
	"strings"
)

const wsPattern = `' ' | '\t' | '\n' | '\r'`

var wsSeps = []string{" ", "\n", "\t", "  ", " \n ", "\r\n"}

func ws() LexDef { return LexDef{Kind: LexIgnored, Name: "!whitespace", Pattern: wsPattern} }

func letters() []LexDef {
	return []LexDef{
		{Kind: LexRegDef, Name: "_letter", Pattern: `'a'-'z' | 'A'-'Z'`},
		{Kind: LexRegDef, Name: "_digit", Pattern: `'0'-'9'`},
	}
}

func P(head string, alts ...*Alt) *Prod  { return &Prod{Head: head, Alts: alts} }
func Al(act Action, syms ...string) *Alt { return &Alt{Syms: S(syms...), Action: act} }
func Er(act Action, syms ...string) *Alt { return &Alt{Syms: S(syms...), Action: act, Error: true} }

var none = Action{}

// Fixed returns the fixed corpus.  Every grammar except those marked Ambiguous
// is LR(1) by inspection; the checks additionally require the real gocc to
// accept it (WORKLOAD-INVALID otherwise).
func Fixed() []*Grammar {
	var gs []*Grammar
	add := func(g *Grammar) { gs = append(gs, g.Finish()) }

	// calc: the repository's example, actions as stub calls
	add(&Grammar{ID: "calc", Tight: true, Seps: wsSeps,
		Lex: append(letters(),
			LexDef{Kind: LexToken, Name: "int64", Pattern: `'1'-'9' {_digit}`, Samples: []string{"1", "42", "907", "12345678", "1234567890123456789012345678901234567890123"}},
			ws()),
		Prods: []*Prod{
			P("Calc", Al(none, "Expr")),
			P("Expr", Al(Call(A(0), A(2)), "Expr", `"+"`, "Term"), Al(none, "Term")),
			P("Term", Al(Call(A(0), A(2)), "Term", `"*"`, "Factor"), Al(none, "Factor")),
			P("Factor", Al(Pass(1), `"("`, "Expr", `")"`), Al(Call(T(0)), "int64")),
		}})

	// bools: comparison and logic, string literals as lexical tokens
	add(&Grammar{ID: "bools", Tight: true, Seps: wsSeps,
		Lex: append(letters(),
			LexDef{Kind: LexToken, Name: "int_lit", Pattern: `_digit {_digit}`, Samples: []string{"0", "7", "15", "0099"}},
			LexDef{Kind: LexToken, Name: "string_lit", Pattern: `'"' {_letter | _digit | ' '} '"'`, Samples: []string{`""`, `"a"`, `"abc def"`, `"x1"`, `"a string literal that is clearly longer than thirty two bytes"`}},
			ws()),
		Prods: []*Prod{
			P("BoolExpr", Al(none, "BoolExpr1")),
			P("BoolExpr1", Al(Call(A(0)), "Val"), Al(Call(A(0), A(2)), "BoolExpr1", `"&"`, "BoolExpr2"), Al(Call(A(0), A(2)), "BoolExpr1", `"|"`, "BoolExpr2"), Al(Pass(1), `"("`, "BoolExpr", `")"`)),
			P("BoolExpr2", Al(none, "Val"), Al(Pass(1), `"("`, "BoolExpr", `")"`)),
			P("Val", Al(Call(), `"true"`), Al(Call(), `"false"`), Al(none, "CompareExpr"), Al(none, "SubStringExpr")),
			P("CompareExpr", Al(Call(T(0), T(2)), "int_lit", `"<"`, "int_lit"), Al(Call(A(0), A(2)), "int_lit", `">"`, "int_lit")),
			P("SubStringExpr", Al(Call(A(0), T(2)), "string_lit", `"in"`, "string_lit")),
		}})

	// astx: left-recursive list
	add(&Grammar{ID: "astx", Seps: wsSeps,
		Lex: append(letters(),
			LexDef{Kind: LexRegDef, Name: "_idchar", Pattern: `_letter | _digit | '_'`},
			LexDef{Kind: LexToken, Name: "id", Pattern: `(_letter | '_') {_idchar}`, Samples: []string{"a", "_x", "foo_1", "Z9"}},
			ws()),
		Prods: []*Prod{
			P("StmtList", Al(Call(A(0)), "Stmt"), Al(Call(A(0), A(1)), "StmtList", "Stmt")),
			P("Stmt", Al(Call(T(0)), "id")),
		}})

	// errrec: the repository's error recovery example
	add(&Grammar{ID: "errrec", Seps: wsSeps,
		Lex: append(letters(),
			LexDef{Kind: LexRegDef, Name: "_idchar", Pattern: `_letter | _digit | '_'`},
			LexDef{Kind: LexToken, Name: "id", Pattern: `(_letter | '_') {_idchar}`, Samples: []string{"a", "_x", "foo_1", "Z9", "a_rather_long_identifier_of_more_than_forty_bytes_x"}},
			LexDef{Kind: LexToken, Name: "num", Pattern: `_digit {_digit}`, Samples: []string{"1", "22", "12345678901234567890123456789012345678901234567890"}},
			ws()),
		Prods: []*Prod{
			P("StmtList", Al(Call(A(0)), "Stmt"), Al(Call(A(0), A(1)), "StmtList", "Stmt")),
			P("Stmt", Al(Call(A(0)), "id"), Er(none)),
		}})

	// errdeep: error alternatives at several depths, with and without actions
	add(&Grammar{ID: "errdeep", Tight: true, Seps: wsSeps,
		Lex: append(letters(),
			LexDef{Kind: LexToken, Name: "id", Pattern: `_letter {_letter | _digit}`, Samples: []string{"a", "bc", "x1", "Q"}},
			LexDef{Kind: LexToken, Name: "num", Pattern: `_digit {_digit}`, Samples: []string{"0", "31", "400"}},
			ws()),
		Prods: []*Prod{
			P("Prog", Al(CallCtx(A(0)), "Blocks")),
			P("Blocks", Al(Call(A(0)), "Block"), Al(Call(A(0), A(1)), "Blocks", "Block")),
			P("Block", Al(Call(A(1)), `"{"`, "Stmts", `"}"`), Er(Call(A(0), T(1)), `"}"`)),
			P("Stmts", Al(Call(A(0)), "Stmt"), Al(Call(A(0), A(1)), "Stmts", "Stmt")),
			P("Stmt", Al(Call(T(0), A(2)), "id", `"="`, "Expr", `";"`), Er(Call(A(0)), `";"`)),
			P("Expr", Al(none, "Atom"), Al(Call(A(0), A(2)), "Expr", `"+"`, "Atom")),
			P("Atom", Al(none, "id"), Al(none, "num"), Al(Pass(1), `"("`, "Expr", `")"`), Er(CallCtx(A(0)), `")"`)),
		}})

	// sr: dangling else, needs -a (ambiguous: no derivation-based expectation)
	add(&Grammar{ID: "sr", Ambiguous: true, Flags: []string{"-a"}, Seps: wsSeps,
		Lex: append(letters(),
			LexDef{Kind: LexToken, Name: "id", Pattern: `_letter {_letter | _digit}`, Samples: []string{"a", "bc", "x1"}},
			ws()),
		Prods: []*Prod{
			P("Stmt", Al(Call(A(1), A(3)), `"if"`, "id", `"then"`, "Stmt"), Al(Call(A(1), A(3), A(5)), `"if"`, "id", `"then"`, "Stmt", `"else"`, "Stmt"), Al(Call(A(0)), "id")),
		}})

	// srml: the same conflict, every action spread over several lines (whatever the generator
	// writes about the losing action must stay inside a comment or a string)
	{
		ml := func(tag string) ArgRef {
			return K("`"+tag+"\n  second line */ \" // `", tag+"\n  second line */ \" // ")
		}
		add(&Grammar{ID: "srml", Ambiguous: true, Flags: []string{"-a"}, Seps: wsSeps,
			Lex: append(letters(),
				LexDef{Kind: LexToken, Name: "id", Pattern: `_letter {_letter | _digit}`, Samples: []string{"a", "bc", "x1"}},
				ws()),
			Prods: []*Prod{
				P("Stmt", Al(Call(A(1), ml("short"), A(3)), `"if"`, "id", `"then"`, "Stmt"), Al(Call(A(1), A(3), ml("long"), A(5)), `"if"`, "id", `"then"`, "Stmt", `"else"`, "Stmt"), Al(Call(A(0), ml("leaf")), "id")),
			}})
	}

	// unreachable: productions no sentence uses, one of them the only user of a header import
	add(&Grammar{ID: "unreachable", GoccOnly: true, Seps: wsSeps, HeaderImports: []string{`"strconv"`},
		Lex: append(letters(),
			LexDef{Kind: LexToken, Name: "used", Pattern: `'u' {_digit}`, Samples: []string{"u", "u12"}},
			LexDef{Kind: LexToken, Name: "alpha", Pattern: `'a' _digit`, Samples: []string{"a1"}},
			ws()),
		Prods: []*Prod{
			P("S", Al(Call(A(0)), "used"), Al(Call(A(0), A(2)), "S", `";"`, "used")),
			P("Orphan", Al(Action{Kind: ActRaw, Raw: `strconv.Itoa(len(X)), nil`}, "alpha"), Al(Call(A(0), A(1)), "Orphan", "Kin")),
			P("Kin", Al(Call(T(0)), "alpha", `"!"`)),
		}})

	// rr: reduce/reduce conflict, needs -a
	add(&Grammar{ID: "rr", Ambiguous: true, Flags: []string{"-a"}, Seps: wsSeps,
		Lex: []LexDef{ws()},
		Prods: []*Prod{
			P("RR", Al(Call(A(0)), "A"), Al(Call(A(0)), "B")),
			P("B", Al(Call(), `"a"`)),
			P("A", Al(Call(), `"a"`), Al(Call(A(0)), "A", `"a"`)),
		}})

	// rr3: several productions with the same body: three or more actions compete
	// for one (state, look-ahead) pair; needs -a
	add(&Grammar{ID: "rr3", Ambiguous: true, Flags: []string{"-a"}, Seps: wsSeps,
		Lex: []LexDef{ws()},
		Prods: []*Prod{
			P("T", Al(Call(A(0)), "A"), Al(Call(A(0)), "B"), Al(Call(A(0)), "C"), Al(Call(A(0)), "D"), Al(Call(A(0), A(1)), "E", `"z"`)),
			P("A", Al(Call(), `"a"`)),
			P("B", Al(Call(), `"a"`)),
			P("C", Al(Call(), `"a"`)),
			P("D", Al(Call(), `"a"`), Al(Call(), `"a"`, `"a"`)),
			P("E", Al(Call(), `"a"`)),
		}})

	// nolexer: parser only
	add(&Grammar{ID: "nolexer", Flags: []string{"-no_lexer"},
		Prods: []*Prod{
			P("Hello", Al(Call(A(0), A(1)), "Greeting", "Names")),
			P("Greeting", Al(Call(T(0)), "hiya"), Al(Call(T(0), T(1)), "hallo", "kitty")),
			P("Names", Al(Call(A(0)), "name"), Al(Call(A(0), T(1)), "Names", "name")),
		}})

	// tokensonly: a syntax part that mentions only token identifiers, no lexical part,
	// and NO -no_lexer: gocc still has to write a lexer package
	add(&Grammar{ID: "tokensonly", GoccOnly: true,
		Prods: []*Prod{
			P("Hello", Al(Call(A(0), A(1)), "Greeting", "Names")),
			P("Greeting", Al(Call(T(0)), "hiya"), Al(Call(T(0), T(1)), "hallo", "kitty")),
			P("Names", Al(Call(A(0)), "name"), Al(Call(A(0), T(1)), "Names", "name")),
		}})

	// mail: lexer only
	add(&Grammar{ID: "mail", Seps: wsSeps,
		Lex: []LexDef{
			ws(),
			{Kind: LexRegDef, Name: "_atext", Pattern: `'a'-'z' | 'A'-'Z' | '0'-'9' | '!' | '#' | '$' | '%' | '&' | '\'' | '*' | '+' | '-' | '/' | '=' | '?' | '^' | '_' | '` + "`" + `' | '{' | '|' | '}' | '~'`},
			{Kind: LexRegDef, Name: "_atom", Pattern: `_atext {_atext}`},
			{Kind: LexRegDef, Name: "_dotatom", Pattern: `_atom {'.' _atom}`},
			{Kind: LexRegDef, Name: "_quotedpair", Pattern: `'\\' .`},
			{Kind: LexRegDef, Name: "_quotedstring", Pattern: `'"' (_quotedpair | .) {_quotedpair | .} '"'`},
			{Kind: LexToken, Name: "addrspec", Pattern: `(_dotatom | _quotedstring) '@' _dotatom`, Samples: []string{"a@b", "mymail@google.com", "x.y+z@q-1.org", `"quoted string"@mydomain.org`}},
		}})

	// usercontext: $Context in some alternatives, none in others
	add(&Grammar{ID: "usercontext", Seps: []string{" ", "\n", "\r\n"},
		Lex: []LexDef{
			{Kind: LexIgnored, Name: "!whitespace", Pattern: `' ' | '\r' '\n' | '\n'`},
			{Kind: LexToken, Name: "lowercase", Pattern: `'a'-'z' {'a'-'z'}`, Samples: []string{"a", "hello", "zz"}},
			{Kind: LexToken, Name: "capitalized", Pattern: `'A'-'Z' {'a'-'z' | 'A'-'Z'}`, Samples: []string{"A", "Hello", "ZzZ"}},
		},
		Prods: []*Prod{
			P("Grammar", Al(Pass(0), "Words", `"...42..."`)),
			P("Words", Al(none, "capitalized"), Al(none, "Words", "capitalized"), Al(CallCtx(A(0)), "lowercase"), Al(CallCtx(A(1), A(0)), "Words", "lowercase")),
		}})

	// nullable: chains of nullable nonterminals, empty with and without action
	add(&Grammar{ID: "nullable", Seps: wsSeps,
		Lex: []LexDef{ws()},
		Prods: []*Prod{
			P("S", Al(Call(A(0), A(1), A(2), A(3)), "A", "B", "C", `"end"`)),
			P("A", Al(Call(T(0)), `"a"`), Al(none)),
			P("B", Al(Call(A(0), A(1)), `"b"`, "B"), Al(none)),
			P("C", Al(Call()), Al(none, `"c"`, "D")),
			P("D", Al(CallCtx()), Al(Call(A(0), A(1)), `"d"`, "D")),
		}})

	// deep: right recursion and nesting (stack depth grows with input, beyond 100)
	add(&Grammar{ID: "deep", Tight: true, Seps: wsSeps,
		Lex: append(letters(),
			LexDef{Kind: LexToken, Name: "id", Pattern: `_letter {_letter | _digit}`, Samples: []string{"a", "bc", "x1", "Q"}},
			ws()),
		Prods: []*Prod{
			P("Top", Al(Call(A(0)), "R")),
			P("R", Al(Call(A(0), A(2)), "L", `","`, "R"), Al(none, "L")),
			P("L", Al(Call(A(1)), `"("`, "R", `")"`), Al(Call(T(0)), "id"), Al(Pass(1), `"["`, "L", `"]"`)),
		}})

	// startrec: the START symbol itself is right-recursive and nests in brackets (a reduction
	// to the start symbol with end-of-input as lookahead happens below the top of the stack)
	add(&Grammar{ID: "startrec", Tight: true, Seps: wsSeps,
		Lex: append(letters(),
			LexDef{Kind: LexToken, Name: "id", Pattern: `_letter {_letter | _digit}`, Samples: []string{"a", "bc", "x1", "Q"}},
			ws()),
		Prods: []*Prod{
			P("List", Al(Call(T(0)), "id"), Al(Call(T(0), A(2)), "id", `","`, "List"), Al(Call(A(1)), `"("`, "List", `")"`), Al(Call(A(1), A(3)), `"["`, "List", `"]"`, "List")),
		}})

	// nearactions: actions that differ in nothing but white space inside a string
	// constant, letter case, a trailing blank, the last byte after a long common
	// prefix, or the spelling of one and the same value
	{
		long := strings.Repeat("0123456789abcdef", 20)
		item := func(kw, lit, val string) *Alt {
			return Al(Labelled(900, K(lit, val), T(1)), `"`+kw+`"`, "id")
		}
		add(&Grammar{ID: "nearactions", Seps: wsSeps,
			Lex: append(letters(),
				LexDef{Kind: LexToken, Name: "id", Pattern: `('x' | 'y' | 'z') {_letter | _digit}`, Samples: []string{"x", "yy", "z9q", "xK"}},
				ws()),
			Prods: []*Prod{
				P("Items", Al(Call(A(0)), "Item"), Al(Call(A(0), A(1)), "Items", "Item")),
				P("Item",
					item("ka", `"p q"`, "p q"), item("kb", `"p  q"`, "p  q"), item("kc", "\"p\tq\"", "p\tq"), item("kd", "\"p\\tq\"", "p\tq"),
					item("ke", `"P Q"`, "P Q"), item("kf", `"p q "`, "p q "), item("kg", `" p q"`, " p q"), item("kh", "`p q`", "p q"),
					item("ki", `"`+long+`1"`, long+"1"), item("kj", `"`+long+`2"`, long+"2"), item("kk", `"pq"`, "pq"), item("kl", "\"p\u00a0q\"", "p\u00a0q")),
			}})
	}

	// manyprods: more than 255 productions, more than 255 terminals, more than 512
	// states, and one alternative of 42 symbols (size limits of table entries)
	{
		var items []*Alt
		var cmds []*Prod
		for i := 0; i < 258; i++ {
			kw := fmt.Sprintf("k%03d", i)
			nt := fmt.Sprintf("C%03d", i)
			// one nonterminal per keyword (more than 256 nonterminals: goto columns above 255)
			items = append(items, Al(none, nt))
			switch i % 3 {
			case 0:
				cmds = append(cmds, P(nt, Al(Call(T(1)), `"`+kw+`"`, "id")))
			case 1:
				cmds = append(cmds, P(nt, Al(Call(T(0), T(1)), `"`+kw+`"`, "id")))
			default:
				cmds = append(cmds, P(nt, Al(Call(A(1), T(2)), `"`+kw+`"`, "id", "id")))
			}
		}
		wide := []string{`"wide"`}
		for i := 0; i < 40; i++ {
			wide = append(wide, "id")
		}
		wide = append(wide, `";"`)
		items = append(items, Al(Call(A(1), T(17), A(39), T(40), A(16), A(32), A(33)), wide...))
		add(&Grammar{ID: "manyprods", Heavy: true, Big: true, Seps: wsSeps,
			Lex: append(letters(),
				LexDef{Kind: LexToken, Name: "id", Pattern: `('x' | 'y' | 'z') {_letter | _digit}`, Samples: []string{"x", "yy", "z9q", "xK"}},
				ws()),
			Prods: append([]*Prod{
				P("Items", Al(Call(A(0)), "Item"), Al(Call(A(0), A(1)), "Items", "Item")),
				{Head: "Item", Alts: items},
			}, cmds...)})
	}

	// longalt: a 12-symbol alternative ($10, $11 next to $1)
	add(&Grammar{ID: "longalt", Seps: wsSeps,
		Lex: append(letters(),
			LexDef{Kind: LexToken, Name: "id", Pattern: `_letter {_letter}`, Samples: []string{"a", "bc", "xyz"}},
			LexDef{Kind: LexToken, Name: "num", Pattern: `_digit {_digit}`, Samples: []string{"0", "31", "400"}},
			ws()),
		Prods: []*Prod{
			P("Rows", Al(Call(A(0)), "Row"), Al(Call(A(0), A(1)), "Rows", "Row")),
			P("Row",
				Al(Call(A(10), A(1), A(11), T(0), A(2), T(10), A(9)), "id", "num", "V", "id", "num", "V", "id", "num", "V", "id", "num", "V"),
				Al(CallCtx(A(1), A(10)), `"row"`, "V", "V", "V", "V", "V", "V", "V", "V", "V", "V", `";"`),
				Al(Pass(11), `"last"`, "V", "V", "V", "V", "V", "V", "V", "V", "V", "V", "V")),
			P("V", Al(none, "num"), Al(Call(A(1)), `"<"`, "V", `">"`), Al(Call(), `"~"`)),
		}})

	// namesclash: productions whose names look like the $-forms (T1, Context, E1)
	add(&Grammar{ID: "namesclash", Tight: true, Seps: wsSeps,
		Lex: append(letters(),
			LexDef{Kind: LexToken, Name: "num", Pattern: `_digit {_digit}`, Samples: []string{"1", "22", "305"}},
			LexDef{Kind: LexToken, Name: "word", Pattern: `_letter {_letter}`, Samples: []string{"a", "bc", "xyz"}},
			ws()),
		Prods: []*Prod{
			P("Stmts", Al(Call(A(0)), "Stmt"), Al(Call(A(0), A(1)), "Stmts", "Stmt")),
			P("Stmt", Al(CallCtx(A(0), A(2), T(1)), "Context", `"=>"`, "E1", `";"`), Al(Call(A(0)), "E1", `";"`)),
			P("Context", Al(Call(T(1)), `"["`, "word", `"]"`)),
			P("E1", Al(Call(A(0), T(1), A(2)), "E1", `"+"`, "T1"), Al(none, "T1")),
			P("T1", Al(Call(A(0), T(1), A(2)), "T1", `"*"`, "T0"), Al(CallCtx(A(0)), "T0")),
			P("T0", Al(Call(T(0)), "num"), Al(Pass(1), `"("`, "E1", `")"`)),
		}})

	// indirectnull: a prefix that is nullable only through other nonterminals, followed
	// by a nonterminal whose FIRST set is reached through a chain of unit productions
	add(&Grammar{ID: "indirectnull", Seps: wsSeps,
		Lex: append(letters(),
			LexDef{Kind: LexToken, Name: "id", Pattern: `_letter {_letter | _digit}`, Samples: []string{"a", "b1", "xyz"}},
			ws()),
		Prods: []*Prod{
			P("Unit", Al(Call(A(0)), "Decl"), Al(Call(A(0), A(1)), "Unit", "Decl")),
			P("Decl", Al(Call(A(0), A(1), T(2)), "Modifiers", "Type", "id", `";"`)),
			P("Modifiers", Al(Call(A(0), A(1)), "Visibility", "Storage")),
			P("Visibility", Al(Call(), `"pub"`), Al(none)),
			P("Storage", Al(Call(), `"static"`), Al(Call())),
			P("Type", Al(none, "NamedType"), Al(Call(), `"int"`), Al(Call(A(1)), `"["`, "Type", `"]"`)),
			P("NamedType", Al(Call(A(0)), "QualifiedName")),
			P("QualifiedName", Al(Call(T(0)), "id"), Al(Call(A(0), T(2)), "QualifiedName", `"."`, "id")),
		}})

	// dupalt: the same body twice in one production (a copy/paste slip that differs
	// only in its action); gocc accepts it; which alternative reduces must not vary
	add(&Grammar{ID: "dupalt", Ambiguous: true, GoccOnly: true, Flags: []string{"-a"}, Seps: wsSeps,
		Lex: append(letters(),
			LexDef{Kind: LexToken, Name: "num", Pattern: `_digit {_digit}`, Samples: []string{"1", "22"}},
			LexDef{Kind: LexToken, Name: "word", Pattern: `_letter {_letter}`, Samples: []string{"a", "bc"}},
			ws()),
		Prods: []*Prod{
			P("List", Al(Call(A(0)), "Value"), Al(Call(A(0), A(2)), "List", `","`, "Value")),
			P("Value", Al(Call(T(0)), "num"), Al(Call(T(0)), "word"), Al(CallCtx(T(0)), "num"), Al(Call(A(1)), `"("`, "List", `")"`), Al(Call(T(0), T(0)), "word")),
		}})

	// scripts: ten tokens over ten non-ASCII ranges: the lexer's start state has many wide ranges
	{
		type sc struct {
			name, lo, hi string
			samples      []string
		}
		scs := []sc{
			{"greek", "α", "ω", []string{"αβγ", "λογος"}}, {"cyril", "а", "я", []string{"да", "привет"}}, {"hebrew", "א", "ת", []string{"שלום", "אב"}},
			{"arabic", "ء", "ي", []string{"سلام", "نور"}}, {"devan", "अ", "ह", []string{"नमन", "कमल"}}, {"thai", "ก", "ฮ", []string{"กขค", "งนม"}},
			{"hira", "ぁ", "ん", []string{"ありがとう", "ねこ"}}, {"kata", "ァ", "ン", []string{"カタカナ", "ネコ"}}, {"han", "一", "鿿", []string{"中文", "世界"}},
			{"hangul", "가", "힣", []string{"한글", "세계"}}, {"armen", "ա", "ֆ", []string{"բարեվ", "հայ"}},
		}
		var lex []LexDef
		var alts []*Alt
		for _, x := range scs {
			lex = append(lex, LexDef{Kind: LexToken, Name: x.name, Pattern: "'" + x.lo + "'-'" + x.hi + "' {'" + x.lo + "'-'" + x.hi + "'}", Samples: x.samples})
			alts = append(alts, &Alt{Syms: []Sym{{Kind: Tok, Name: x.name}}, Action: Call(T(0))})
		}
		lex = append(lex, LexDef{Kind: LexToken, Name: "latin", Pattern: `'a'-'z' {'a'-'z'}`, Samples: []string{"a", "word"}}, ws())
		alts = append(alts, &Alt{Syms: []Sym{{Kind: Tok, Name: "latin"}}, Action: Call(T(0))})
		add(&Grammar{ID: "scripts", Seps: wsSeps, Lex: lex,
			Prods: []*Prod{P("Text", Al(Call(A(0)), "Word"), Al(Call(A(0), A(1)), "Text", "Word")), {Head: "Word", Alts: alts}}})
	}

	// splitrules: nonterminals defined by several rules with other rules in between
	add(&Grammar{ID: "splitrules", Seps: wsSeps,
		Lex: append(letters(),
			LexDef{Kind: LexToken, Name: "id", Pattern: `_letter {_letter}`, Samples: []string{"a", "bc", "xyz"}},
			LexDef{Kind: LexToken, Name: "num", Pattern: `_digit {_digit}`, Samples: []string{"0", "31"}},
			ws()),
		Prods: []*Prod{
			P("Prog", Al(Call(A(0)), "Item"), Al(Call(A(0), A(1), A(2)), "Prog", "Sep", "Item")),
			P("Item", Al(Call(T(0)), "id")),
			P("Sep", Al(Call(), `","`), Al(Call(), `";"`)),
			P("Item", Al(Call(T(0)), "num"), Al(Call(A(1)), `"("`, "Prog", `")"`)),
			P("Sep", Al(Call(T(0)), `"|"`)),
			P("Item", Al(CallCtx(A(1)), `"<"`, "Item", `">"`)),
		}})

	// multiline: action expressions that span several lines and carry string
	// constants (raw strings with line breaks and leading blanks, quotes, `$`-free)
	add(&Grammar{ID: "multiline", Seps: wsSeps,
		Lex: append(letters(),
			LexDef{Kind: LexToken, Name: "id", Pattern: `_letter {_letter}`, Samples: []string{"a", "bc", "xyz"}},
			ws()),
		Prods: []*Prod{
			P("Doc", Al(Call(A(0), K("`end of\n  doc\n`", "end of\n  doc\n")), "Blocks")),
			P("Blocks", Al(Call(A(0)), "Block"), Al(Call(K("`\n\t\tsep\n`", "\n\t\tsep\n"), A(0), A(1)), "Blocks", "Block")),
			P("Block",
				Al(Call(K("`begin %s\n  body\nend\n`", "begin %s\n  body\nend\n"), T(1)), `"begin"`, "id", `"end"`),
				Al(Call(A(1), K("\"one line \\n \\t\"", "one line \n \t"), K("`x`", "x")), `"("`, "id", `")"`)),
		}})

	// keywords: literals that look like identifiers
	add(&Grammar{ID: "keywords", Tight: true, Seps: wsSeps,
		Lex: append(letters(),
			LexDef{Kind: LexToken, Name: "ident", Pattern: `_letter {_letter | _digit | '_'}`, Samples: []string{"a", "iff", "fo", "whiled", "i", "returns", "x_1", "an_identifier_that_is_longer_than_thirty_two_bytes_1"}},
			LexDef{Kind: LexToken, Name: "number", Pattern: `_digit {_digit} ['.' _digit {_digit}]`, Samples: []string{"0", "3.14", "10", "7.0"}},
			ws()),
		Prods: []*Prod{
			P("Prog", Al(Call(A(0)), "Stmts")),
			P("Stmts", Al(Call()), Al(Call(A(0), A(1)), "Stmts", "Stmt")),
			P("Stmt",
				Al(Call(A(1), A(2)), `"if"`, "Expr", "Block"),
				Al(Call(A(1), A(2), A(4)), `"if"`, "Expr", "Block", `"else"`, "Block"),
				Al(Call(A(1), A(2)), `"while"`, "Expr", "Block"),
				Al(Call(A(1)), `"return"`, "Expr", `";"`),
				Al(Call(T(0), A(2)), "ident", `"="`, "Expr", `";"`)),
			P("Block", Al(Pass(1), `"{"`, "Stmts", `"}"`)),
			P("Expr", Al(none, "ident"), Al(none, "number"), Al(Call(A(1), A(3)), `"("`, "Expr", `"=="`, "Expr", `")"`)),
		}})

	// unicode: non-ASCII ranges, '.' and escapes
	add(&Grammar{ID: "unicode", Seps: []string{" ", "\n", " "},
		Lex: []LexDef{
			{Kind: LexIgnored, Name: "!space", Pattern: `' ' | '\n' | ' '`},
			{Kind: LexToken, Name: "greek", Pattern: `'α'-'ω' {'α'-'ω'}`, Samples: []string{"α", "λογος", "ωω"}},
			{Kind: LexToken, Name: "han", Pattern: `'一'-'鿿' {'一'-'鿿'}`, Samples: []string{"中", "語言", "世界一"}},
			{Kind: LexToken, Name: "emoji", Pattern: `'\U0001F600'-'\U0001F64F'`, Samples: []string{"\U0001F600", "\U0001F64F"}},
			{Kind: LexToken, Name: "quoted", Pattern: `'«' . {.} '»'`, Samples: []string{"«x»", "«a b»", "«中\t»"}},
		},
		Prods: []*Prod{
			P("Doc", Al(Call(A(0)), "Items")),
			P("Items", Al(Call(A(0)), "Item"), Al(Call(A(0), A(1)), "Items", "Item")),
			P("Item", Al(Call(T(0)), "greek"), Al(Call(T(0), T(1)), "han", "emoji"), Al(none, "quoted"), Al(Call(A(1)), `"→"`, "Item")),
		}})

	// nestedlex: nested [ ] { } ( ) lexical patterns
	add(&Grammar{ID: "nestedlex", Seps: wsSeps,
		Lex: append(letters(),
			LexDef{Kind: LexRegDef, Name: "_hex", Pattern: `_digit | 'a'-'f' | 'A'-'F'`},
			LexDef{Kind: LexToken, Name: "float", Pattern: `_digit {_digit} '.' {_digit} [('e' | 'E') ['+' | '-'] _digit {_digit}]`, Samples: []string{"1.", "3.25", "10.5e3", "2.0E-10", "7.e+1"}},
			LexDef{Kind: LexToken, Name: "hexnum", Pattern: `'0' ('x' | 'X') _hex {_hex | '_' _hex}`, Samples: []string{"0x0", "0Xff", "0xdead_beef", "0x1_2_3"}},
			LexDef{Kind: LexToken, Name: "str", Pattern: "'`' {.} '`'", Samples: []string{"``", "`a`", "`x y z`"}},
			LexDef{Kind: LexToken, Name: "comment", Pattern: `'/' '*' {. | '*'} '*' '/'`, Samples: []string{"/**/", "/* x */", "/* a * b */"}},
			ws()),
		Prods: []*Prod{
			P("List", Al(Call()), Al(Call(A(0), A(1)), "List", "Elem")),
			P("Elem", Al(Call(T(0)), "float"), Al(Call(T(0)), "hexnum"), Al(none, "str"), Al(Call(A(0)), "comment")),
		}})

	// unused: several tokens the syntax part never mentions (order of token ids)
	add(&Grammar{ID: "unused", Seps: wsSeps,
		Lex: append(letters(),
			LexDef{Kind: LexToken, Name: "zeta", Pattern: `'z' _digit`, Samples: []string{"z1"}},
			LexDef{Kind: LexToken, Name: "used", Pattern: `'u' {_digit}`, Samples: []string{"u", "u12"}},
			LexDef{Kind: LexToken, Name: "alpha", Pattern: `'a' _digit`, Samples: []string{"a1"}},
			LexDef{Kind: LexToken, Name: "mid", Pattern: `'m' _digit`, Samples: []string{"m1"}},
			LexDef{Kind: LexToken, Name: "beta", Pattern: `'b' _digit`, Samples: []string{"b1"}},
			LexDef{Kind: LexToken, Name: "omega", Pattern: `'o' _digit`, Samples: []string{"o1"}},
			// ids that differ only in leading zeros or case, all unused by the syntax part
			LexDef{Kind: LexToken, Name: "r1", Pattern: `'r' '1'`, Samples: []string{"r1"}},
			LexDef{Kind: LexToken, Name: "r01", Pattern: `'r' '0' '1'`, Samples: []string{"r01"}},
			LexDef{Kind: LexToken, Name: "r007", Pattern: `'r' '0' '0' '7'`, Samples: []string{"r007"}},
			LexDef{Kind: LexToken, Name: "r7", Pattern: `'r' '7'`, Samples: []string{"r7"}},
			LexDef{Kind: LexToken, Name: "rA", Pattern: `'r' 'A'`, Samples: []string{"rA"}},
			LexDef{Kind: LexToken, Name: "ra", Pattern: `'r' 'a'`, Samples: []string{"ra"}},
			ws()),
		Prods: []*Prod{
			P("S", Al(Call(A(0)), "used"), Al(Call(A(0), A(2)), "S", `";"`, "used")),
		}})

	// lexonly: lexer-only grammar with many tokens
	add(&Grammar{ID: "lexonly", Seps: wsSeps,
		Lex: append(letters(),
			LexDef{Kind: LexToken, Name: "word", Pattern: `_letter {_letter}`, Samples: []string{"a", "word"}},
			LexDef{Kind: LexToken, Name: "number", Pattern: `_digit {_digit}`, Samples: []string{"0", "123"}},
			LexDef{Kind: LexToken, Name: "punct", Pattern: `'.' | ',' | ';' | '!' | '?'`, Samples: []string{".", ",", "?"}},
			LexDef{Kind: LexToken, Name: "arrow", Pattern: `'-' '>' | '=' '>'`, Samples: []string{"->", "=>"}},
			ws()),
	})

	// literals: many string literals sharing prefixes, several conflicts resolved by -a
	add(&Grammar{ID: "literals", Ambiguous: true, Flags: []string{"-a"}, Tight: false, Seps: wsSeps,
		Lex: append(letters(),
			LexDef{Kind: LexToken, Name: "id", Pattern: `_letter {_letter}`, Samples: []string{"a", "bc"}},
			ws()),
		Prods: []*Prod{
			P("E",
				Al(Call(A(0), A(2)), "E", `"+"`, "E"),
				Al(Call(A(0), A(2)), "E", `"++"`, "E"),
				Al(Call(A(0), A(2)), "E", `"-"`, "E"),
				Al(Call(A(0), A(2)), "E", `"->"`, "E"),
				Al(Call(A(0), A(2)), "E", `"<"`, "E"),
				Al(Call(A(0), A(2)), "E", `"<="`, "E"),
				Al(Call(A(0), A(2)), "E", `"<=>"`, "E"),
				Al(Call(A(1)), `"!"`, "E"),
				Al(Call(T(0)), "id")),
		}})

	// stmtexpr: a mid-sized LR(1) (not LALR-trivial) grammar with optional parts
	add(&Grammar{ID: "stmtexpr", Tight: true, Seps: wsSeps,
		Lex: append(letters(),
			LexDef{Kind: LexToken, Name: "id", Pattern: `_letter {_letter | _digit}`, Samples: []string{"a", "bc", "x1"}},
			LexDef{Kind: LexToken, Name: "num", Pattern: `_digit {_digit}`, Samples: []string{"0", "31"}},
			ws()),
		Prods: []*Prod{
			P("Unit", Al(CallCtx(A(0)), "Decls")),
			P("Decls", Al(none), Al(Call(A(0), A(1)), "Decls", "Decl")),
			P("Decl",
				Al(Call(T(1), A(2), A(3)), `"func"`, "id", "Params", "Body"),
				Al(Call(T(1), A(2)), `"var"`, "id", "Init", `";"`)),
			P("Params", Al(Call(), `"("`, `")"`), Al(Call(A(1)), `"("`, "IdList", `")"`)),
			P("IdList", Al(Call(T(0)), "id"), Al(Call(A(0), T(2)), "IdList", `","`, "id")),
			P("Init", Al(none), Al(Pass(1), `"="`, "Expr")),
			P("Body", Al(Call(A(1)), `"{"`, "StmtList", `"}"`)),
			P("StmtList", Al(none), Al(Call(A(0), A(1)), "StmtList", "Stmt")),
			P("Stmt", Al(Call(A(0)), "Expr", `";"`), Al(none, "Body"), Er(Call(A(0)), `";"`)),
			P("Expr", Al(none, "Term"), Al(Call(A(0), A(2)), "Expr", `"+"`, "Term"), Al(Call(A(0), A(2)), "Expr", `"-"`, "Term")),
			P("Term", Al(none, "Unary"), Al(Call(A(0), A(2)), "Term", `"*"`, "Unary")),
			P("Unary", Al(none, "Primary"), Al(Call(A(1)), `"-"`, "Unary")),
			P("Primary", Al(Call(T(0)), "id"), Al(Call(T(0)), "num"), Al(Pass(1), `"("`, "Expr", `")"`), Al(Call(T(0), A(2)), "id", `"("`, "Args", `")"`)),
			P("Args", Al(none), Al(none, "ArgList")),
			P("ArgList", Al(Call(A(0)), "Expr"), Al(Call(A(0), A(2)), "ArgList", `","`, "Expr")),
		}})

	// stmtconf: the same language plus a dangling else: a large automaton (> 64 states,
	// item sets > 64 items) WITH conflicts; needs -a
	add(&Grammar{ID: "stmtconf", Tight: true, Ambiguous: true, Flags: []string{"-a"}, Seps: wsSeps,
		Lex: append(letters(),
			LexDef{Kind: LexToken, Name: "id", Pattern: `_letter {_letter | _digit}`, Samples: []string{"a", "bc", "x1"}},
			LexDef{Kind: LexToken, Name: "num", Pattern: `_digit {_digit}`, Samples: []string{"0", "31"}},
			ws()),
		Prods: []*Prod{
			P("Unit", Al(CallCtx(A(0)), "Decls")),
			P("Decls", Al(none), Al(Call(A(0), A(1)), "Decls", "Decl")),
			P("Decl",
				Al(Call(T(1), A(2), A(3)), `"func"`, "id", "Params", "Body"),
				Al(Call(T(1), A(2)), `"var"`, "id", "Init", `";"`)),
			P("Params", Al(Call(), `"("`, `")"`), Al(Call(A(1)), `"("`, "IdList", `")"`)),
			P("IdList", Al(Call(T(0)), "id"), Al(Call(A(0), T(2)), "IdList", `","`, "id")),
			P("Init", Al(none), Al(Pass(1), `"="`, "Expr")),
			P("Body", Al(Call(A(1)), `"{"`, "StmtList", `"}"`)),
			P("StmtList", Al(none), Al(Call(A(0), A(1)), "StmtList", "Stmt")),
			P("Stmt", Al(Call(A(0)), "Expr", `";"`), Al(none, "Body"), Er(Call(A(0)), `";"`),
				Al(Call(A(1), A(2)), `"if"`, "Expr", "Stmt"), Al(Call(A(1), A(2), A(4)), `"if"`, "Expr", "Stmt", `"else"`, "Stmt")),
			P("Expr", Al(none, "Term"), Al(Call(A(0), A(2)), "Expr", `"+"`, "Term"), Al(Call(A(0), A(2)), "Expr", `"-"`, "Term")),
			P("Term", Al(none, "Unary"), Al(Call(A(0), A(2)), "Term", `"*"`, "Unary")),
			P("Unary", Al(none, "Primary"), Al(Call(A(1)), `"-"`, "Unary")),
			P("Primary", Al(Call(T(0)), "id"), Al(Call(T(0)), "num"), Al(Pass(1), `"("`, "Expr", `")"`), Al(Call(T(0), A(2)), "id", `"("`, "Args", `")"`)),
			P("Args", Al(none), Al(none, "ArgList")),
			P("ArgList", Al(Call(A(0)), "Expr"), Al(Call(A(0), A(2)), "ArgList", `","`, "Expr")),
		}})

	// bigexpr: ten precedence levels and a statement layer: about a thousand LR(1)
	// states, tables of tens of kilobytes (thresholds that only large grammars cross)
	{
		ops := []string{"||", "&&", "|", "&", "==", "<", "+", "*", "**", "<<", "=>", "::", "%"}
		prods := []*Prod{
			P("Program", Al(Call(A(0)), "StmtList")),
			P("StmtList", Al(Call(A(0)), "Stmt"), Al(Call(A(0), A(1)), "StmtList", "Stmt")),
			P("Stmt",
				Al(Call(T(0), A(2)), "id", `"="`, "E0", `";"`),
				Al(Call(A(1)), `"print"`, "E0", `";"`),
				Al(Call(A(2), A(4)), `"if"`, `"("`, "E0", `")"`, "Block"),
				Al(Call(A(2), A(4), A(6)), `"if"`, `"("`, "E0", `")"`, "Block", `"else"`, "Block"),
				Al(Call(A(2), A(4)), `"while"`, `"("`, "E0", `")"`, "Block"),
				Al(Call(T(1), A(3), A(5), A(6)), `"for"`, "id", `"in"`, "E0", `".."`, "E0", "Block"),
				Al(Call(A(1)), `"return"`, "E0", `";"`),
				Al(none, "Block")),
			P("Block", Al(Call(A(1)), `"{"`, "StmtList", `"}"`), Al(Call(), `"{"`, `"}"`)),
		}
		for i, op := range ops {
			cur, next := fmt.Sprintf("E%d", i), fmt.Sprintf("E%d", i+1)
			prods = append(prods, P(cur, Al(Call(A(0), A(2)), cur, `"`+op+`"`, next), Al(none, next)))
		}
		last := fmt.Sprintf("E%d", len(ops))
		prods = append(prods,
			P(last, Al(Call(A(1)), `"-"`, last), Al(Call(A(1)), `"!"`, last), Al(none, "Primary")),
			P("Primary", Al(Call(T(0)), "int"), Al(Call(T(0)), "id"), Al(Pass(1), `"("`, "E0", `")"`),
				Al(Call(T(0), A(2)), "id", `"("`, "Args", `")"`), Al(Call(T(0)), "id", `"("`, `")"`),
				Al(Call(A(0), A(2)), "Primary", `"["`, "E0", `"]"`), Al(Call(A(1)), `"["`, "Args", `"]"`),
				Al(Call(A(1), A(3)), `"{"`, "E0", `":"`, "E0", `"}"`),
				Al(Call(A(1), A(3), A(5)), `"if"`, "E0", `"then"`, "E0", `"else"`, "E0", `"end"`),
				Al(Call(T(1), A(3), A(5)), `"let"`, "id", `"="`, "E0", `"in"`, "E0", `"end"`)),
			P("Args", Al(Call(A(0)), "E0"), Al(Call(A(0), A(2)), "Args", `","`, "E0")))
		add(&Grammar{ID: "bigexpr", GoccOnly: true, Big: true, Seps: wsSeps,
			Lex: append(letters(),
				LexDef{Kind: LexToken, Name: "int", Pattern: `'0' | '1'-'9' {_digit}`, Samples: []string{"0", "7", "42"}},
				LexDef{Kind: LexToken, Name: "id", Pattern: `(_letter | '_') {_letter | _digit | '_'}`, Samples: []string{"a", "b_1", "xyz"}},
				ws()),
			Prods: prods})
	}

	return gs
}

// ByID finds a fixed grammar.
func ByID(gs []*Grammar, id string) *Grammar {
	for _, g := range gs {
		if g.ID == id {
			return g
		}
	}
	return nil
}
