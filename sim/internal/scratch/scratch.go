// Package scratch manages the throw-away directories in which the system under
// test is copied, instrumented and built.  Nothing survives a check.
package scratch

import (
	"bytes"
	"fmt"
	"io/fs"
	"os"
	"os/exec"
	"path/filepath"
	"strings"

	"verifsim/inject"
)

const GoRoot = "/opt/veriftools/go1.26.8"

func GoBin() string {
	if p := os.Getenv("VERIF_GO"); p != "" {
		return p
	}
	return filepath.Join(GoRoot, "bin", "go")
}

// GoEnv is the environment of every go command the harness runs.
func GoEnv(extra ...string) []string {
	env := []string{}
	for _, kv := range os.Environ() {
		k := kv[:strings.IndexByte(kv, '=')]
		switch k {
		case "GOFLAGS", "GOPROXY", "GOSUMDB", "GOTOOLCHAIN", "GOROOT", "GO111MODULE", "GOWORK", "GORACE", "GOMAXPROCS":
			continue
		}
		env = append(env, kv)
	}
	env = append(env, "GOFLAGS=-mod=mod", "GOPROXY=off", "GOSUMDB=off", "GOTOOLCHAIN=local", "GOWORK=off", "GOROOT="+GoRoot,
		"PATH="+filepath.Join(GoRoot, "bin")+":"+os.Getenv("PATH"))
	return append(env, extra...)
}

// NewRoot creates the scratch root outside /repo and /verif.
func NewRoot() (string, error) {
	for _, base := range []string{os.Getenv("VERIF_TMP"), os.Getenv("TMPDIR"), "/dev/shm", "/tmp"} {
		if base == "" {
			continue
		}
		if st, err := os.Stat(base); err != nil || !st.IsDir() {
			continue
		}
		d, err := os.MkdirTemp(base, "verifsim-")
		if err == nil {
			return d, nil
		}
	}
	return "", fmt.Errorf("no scratch base directory available")
}

// CopyTree copies a directory tree, skipping .git and anything skip() rejects.
func CopyTree(src, dst string, skip func(rel string, d fs.DirEntry) bool) error {
	return filepath.WalkDir(src, func(p string, d fs.DirEntry, err error) error {
		if err != nil {
			return err
		}
		rel, _ := filepath.Rel(src, p)
		if rel == "." {
			return os.MkdirAll(dst, 0o755)
		}
		if d.Name() == ".git" {
			if d.IsDir() {
				return filepath.SkipDir
			}
			return nil
		}
		if skip != nil && skip(rel, d) {
			if d.IsDir() {
				return filepath.SkipDir
			}
			return nil
		}
		target := filepath.Join(dst, rel)
		if d.IsDir() {
			return os.MkdirAll(target, 0o755)
		}
		if !d.Type().IsRegular() {
			return nil
		}
		data, err := os.ReadFile(p)
		if err != nil {
			return err
		}
		return os.WriteFile(target, data, 0o644)
	})
}

// CopyInject copies one embedded inject package to dstDir, replacing the
// import prefix "verifsim/inject/" by newPrefix+"/".
func CopyInject(name, dstDir, newPrefix string) error {
	ents, err := inject.FS.ReadDir(name)
	if err != nil {
		return err
	}
	if err := os.MkdirAll(dstDir, 0o755); err != nil {
		return err
	}
	for _, e := range ents {
		if e.IsDir() || !strings.HasSuffix(e.Name(), ".go") || strings.HasSuffix(e.Name(), "_test.go") {
			continue
		}
		data, err := inject.FS.ReadFile(name + "/" + e.Name())
		if err != nil {
			return err
		}
		data = bytes.ReplaceAll(data, []byte(`"verifsim/inject/`), []byte(`"`+newPrefix+`/`))
		if err := os.WriteFile(filepath.Join(dstDir, e.Name()), data, 0o644); err != nil {
			return err
		}
	}
	return nil
}

// Run executes a command and returns combined output.
func Run(dir string, env []string, name string, args ...string) (string, error) {
	cmd := exec.Command(name, args...)
	cmd.Dir = dir
	cmd.Env = env
	var out bytes.Buffer
	cmd.Stdout = &out
	cmd.Stderr = &out
	err := cmd.Run()
	return out.String(), err
}

// GoBuild builds package pkg (relative to dir) into out.
func GoBuild(dir, out, pkg string, flags ...string) error {
	args := append([]string{"build"}, flags...)
	args = append(args, "-o", out, pkg)
	o, err := Run(dir, GoEnv(), GoBin(), args...)
	if err != nil {
		return fmt.Errorf("go build %s in %s: %v\n%s", pkg, dir, err, o)
	}
	return nil
}
