// Package rewrite cuts the simulator's seams into a SCRATCH COPY of Go source
// (gocc itself, or the code gocc generated): import redirection of the
// environment packages, seeded order for every range-over-map loop, step /
// yield calls at every function entry and loop head, and a census of what it
// could not put behind a seam.  Edits are byte-offset insertions driven by the
// type-checked AST, so untouched text (comments, directives, line numbers)
// is preserved exactly.
package rewrite

import (
	"fmt"
	"go/ast"
	"go/token"
	"go/types"
	"os"
	"path/filepath"
	"sort"
	"strconv"
	"strings"

	"golang.org/x/tools/go/packages"
)

type Options struct {
	Dir          string            // module root of the scratch copy
	Patterns     []string          // packages.Load patterns (relative to Dir)
	OwnPrefix    string            // only packages whose path has this prefix are rewritten
	SkipPrefix   []string          // ... except these prefixes (the injected packages themselves)
	Redirect     map[string]string // std import path -> replacement import path
	RTImport     string            // import path of the run-time package providing StepFunc / Keys
	StepFunc     string            // "Tick" or "Yield"; "" = no step insertion
	StepArg      bool              // pass the site number: rt.Yield(<n>)
	StmtSteps    bool              // additionally insert a step before EVERY statement of every block (finer preemption points)
	MapRanges    bool              // rewrite range-over-map loops
	KnobConst    string            // name of an integer constant to turn into `var X = rt.Knob(<old>)`; "" = none
	DeferAtExit  bool              // insert `defer rt.AtExit(-1)` at the top of main.main
	CoopGo       bool              // run goroutines as cooperative tasks: `go f(a)` -> rt.Go1(f, a), CoopRedirect applied; only if every go statement is rewritable and there are no channel operations
	CoopChans    bool              // with CoopGo: also rewrite channel types and operations to rt.Chan[T] (select stays unsupported)
	CoopRedirect map[string]string // extra import redirections that only make sense together with CoopGo (sync, runtime)
	Env          []string
	SkipTestFile bool
}

type MapSite struct {
	Site    string `json:"site"`
	KeyType string `json:"key_type"`
	Stable  bool   `json:"stable_key_order"`
}

type Census struct {
	Packages         int            `json:"packages"`
	Files            int            `json:"files"`
	StepSites        int            `json:"step_sites"`
	StepSiteNames    []string       `json:"-"` // index = site number: "file:line func"
	MapSites         []MapSite      `json:"map_sites"`
	Redirected       map[string]int `json:"redirected_imports"`
	GoStmts          []string       `json:"go_statements"`
	GoUnrewritable   []string       `json:"go_statements_not_rewritable"`
	CoopEnabled      bool           `json:"goroutines_scheduled_by_simulator"`
	ChanUnrewritable []string       `json:"channel_constructs_not_rewritable"`
	ChanTypes        int            `json:"channel_types"`
	Selects          []string       `json:"select_statements"`
	ChanOps          []string       `json:"channel_operations"`
	SyncUses         []string       `json:"sync_uses"`
	UnsafeUses       []string       `json:"unsafe_uses"`
	EnvReads         []string       `json:"env_reads"`      // os.Getenv/Environ/LookupEnv, runtime.NumCPU/GOMAXPROCS, exec
	MapIterCalls     []string       `json:"map_iter_calls"` // maps.Keys/Values/All, reflect MapRange/MapKeys, sync.Map.Range
	PointerFormat    []string       `json:"pointer_format"` // %p verbs in string literals
	KnobFound        bool           `json:"knob_found"`
}

type edit struct {
	off  int
	del  int
	text string
	seq  int
	coop bool // only applied when cooperative goroutine scheduling is enabled
}

type fileEdits struct {
	name   string
	src    []byte
	edits  []edit
	rtOff  int  // offset at which the run-time import is inserted
	needRT bool // some unconditional edit needs the import
	coopRT bool // a coop edit needs the import
}

func (fe *fileEdits) replCoop(off, del int, text string) {
	fe.edits = append(fe.edits, edit{off, del, text, len(fe.edits), true})
}

func (fe *fileEdits) insCoop(off int, text string) {
	fe.edits = append(fe.edits, edit{off, 0, text, len(fe.edits), true})
}

func (fe *fileEdits) ins(off int, text string) {
	fe.edits = append(fe.edits, edit{off, 0, text, len(fe.edits), false})
}
func (fe *fileEdits) repl(off, del int, text string) {
	fe.edits = append(fe.edits, edit{off, del, text, len(fe.edits), false})
}

const rtAlias = "verifsimrt"

// Instrument rewrites the packages in place.
func Instrument(o Options) (*Census, error) {
	cfg := &packages.Config{
		Mode: packages.NeedName | packages.NeedFiles | packages.NeedCompiledGoFiles | packages.NeedSyntax |
			packages.NeedTypes | packages.NeedTypesInfo | packages.NeedImports | packages.NeedDeps,
		Dir: o.Dir,
		Env: o.Env,
	}
	pkgs, err := packages.Load(cfg, o.Patterns...)
	if err != nil {
		return nil, fmt.Errorf("load: %w", err)
	}
	c := &Census{Redirected: map[string]int{}}
	var firstErr error
	seen := map[string]bool{}
	var own []*packages.Package
	packages.Visit(pkgs, nil, func(p *packages.Package) {
		if !strings.HasPrefix(p.PkgPath, o.OwnPrefix) {
			return
		}
		for _, s := range o.SkipPrefix {
			if strings.HasPrefix(p.PkgPath, s) {
				return
			}
		}
		if seen[p.PkgPath] {
			return
		}
		seen[p.PkgPath] = true
		own = append(own, p)
	})
	sort.Slice(own, func(i, j int) bool { return own[i].PkgPath < own[j].PkgPath })
	for _, p := range own {
		if len(p.Errors) > 0 && firstErr == nil {
			firstErr = fmt.Errorf("package %s: %v", p.PkgPath, p.Errors[0])
		}
	}
	if firstErr != nil {
		return nil, firstErr
	}
	var all []*fileEdits
	for _, p := range own {
		c.Packages++
		for i, f := range p.Syntax {
			fname := p.CompiledGoFiles[i]
			if strings.HasSuffix(fname, "_test.go") {
				continue
			}
			c.Files++
			fe, err := rewriteFile(o, c, p, f, fname)
			if err != nil {
				return nil, err
			}
			all = append(all, fe)
		}
	}
	c.CoopEnabled = o.CoopGo && len(c.GoUnrewritable) == 0 && len(c.Selects) == 0 && (len(c.ChanOps) == 0 || o.CoopChans && len(c.ChanUnrewritable) == 0)
	for _, fe := range all {
		var edits []edit
		need := fe.needRT
		for _, e := range fe.edits {
			if e.coop && !c.CoopEnabled {
				continue
			}
			edits = append(edits, e)
		}
		if c.CoopEnabled && fe.coopRT {
			need = true
		}
		if need {
			edits = append(edits, edit{fe.rtOff, 0, "; import " + rtAlias + " " + strconv.Quote(o.RTImport), 1 << 30, false})
		}
		if len(edits) == 0 {
			continue
		}
		if err := os.WriteFile(fe.name, applyEdits(fe.src, edits), 0o644); err != nil {
			return nil, err
		}
	}
	return c, nil
}

func relSite(o Options, pos token.Position) string {
	rel, err := filepath.Rel(o.Dir, pos.Filename)
	if err != nil {
		rel = pos.Filename
	}
	return filepath.ToSlash(rel) + ":" + strconv.Itoa(pos.Line)
}

func rewriteFile(o Options, c *Census, p *packages.Package, f *ast.File, fname string) (*fileEdits, error) {
	src, err := os.ReadFile(fname)
	if err != nil {
		return nil, err
	}
	fset := p.Fset
	tf := fset.File(f.Pos())
	off := func(pos token.Pos) int { return tf.Offset(pos) }
	site := func(pos token.Pos) string { return relSite(o, fset.Position(pos)) }
	fe := &fileEdits{name: fname, src: src}
	needRT := false

	// --- imports ---
	for _, im := range f.Imports {
		path, _ := strconv.Unquote(im.Path.Value)
		if repl, ok := o.Redirect[path]; ok {
			if im.Name != nil && im.Name.Name == "_" {
				continue
			}
			c.Redirected[path]++
			newLit := strconv.Quote(repl)
			if im.Name == nil {
				base := path[strings.LastIndex(path, "/")+1:]
				if path == "math/rand/v2" {
					base = "rand"
				}
				newLit = base + " " + newLit
			}
			fe.repl(off(im.Path.Pos()), len(im.Path.Value), newLit)
		}
		if repl, ok := o.CoopRedirect[path]; ok && o.CoopGo && (im.Name == nil || im.Name.Name != "_") {
			newLit := strconv.Quote(repl)
			if im.Name == nil {
				newLit = path[strings.LastIndex(path, "/")+1:] + " " + newLit
			}
			fe.replCoop(off(im.Path.Pos()), len(im.Path.Value), newLit)
		}
		switch path {
		case "unsafe":
			c.UnsafeUses = append(c.UnsafeUses, site(im.Pos()))
		case "os/exec":
			c.EnvReads = append(c.EnvReads, site(im.Pos())+" os/exec")
		}
	}

	labels := map[ast.Stmt]*ast.LabeledStmt{}
	ast.Inspect(f, func(n ast.Node) bool {
		if l, ok := n.(*ast.LabeledStmt); ok {
			labels[l.Stmt] = l
		}
		return true
	})

	curFunc := ""
	step := func(body *ast.BlockStmt) {
		if o.StepFunc == "" || body == nil {
			return
		}
		arg := ""
		if o.StepArg {
			arg = strconv.Itoa(len(c.StepSiteNames))
		}
		c.StepSiteNames = append(c.StepSiteNames, site(body.Lbrace)+" "+p.Name+"."+curFunc)
		fe.ins(off(body.Lbrace)+1, " "+rtAlias+"."+o.StepFunc+"("+arg+"); ")
		needRT = true
		c.StepSites++
	}

	// uses of the knob constant are wrapped: X -> rt.Knob("X", X)
	if o.KnobConst != "" {
		for id, obj := range p.TypesInfo.Uses {
			if cst, ok := obj.(*types.Const); ok && cst.Name() == o.KnobConst && cst.Pkg() == p.Types && id.Pos() >= f.Pos() && id.End() <= f.End() {
				c.KnobFound = true
				fe.repl(off(id.Pos()), len(id.Name), rtAlias+".Knob("+strconv.Quote(o.KnobConst)+", "+id.Name+")")
				needRT = true
			}
		}
	}

	stmtSteps := func(list []ast.Stmt) {
		if !o.StmtSteps || o.StepFunc == "" {
			return
		}
		for i, st := range list {
			if i == 0 {
				continue // the block's own entry step covers the first statement
			}
			switch st.(type) {
			case *ast.DeclStmt, *ast.EmptyStmt, *ast.CaseClause, *ast.CommClause:
				continue // (the body of a switch/select is a block whose "statements" are clauses)
			}
			arg := ""
			if o.StepArg {
				arg = strconv.Itoa(len(c.StepSiteNames))
			}
			c.StepSiteNames = append(c.StepSiteNames, site(st.Pos())+" "+p.Name+"."+curFunc)
			fe.ins(off(st.Pos()), rtAlias+"."+o.StepFunc+"("+arg+"); ")
			needRT = true
			c.StepSites++
		}
	}
	// channel pre-pass: which receives are of the two-value form
	recv2 := map[*ast.UnaryExpr]bool{}
	inMake := map[*ast.ChanType]bool{}
	ast.Inspect(f, func(n ast.Node) bool {
		switch x := n.(type) {
		case *ast.AssignStmt:
			if len(x.Lhs) == 2 && len(x.Rhs) == 1 {
				if u, ok := x.Rhs[0].(*ast.UnaryExpr); ok && u.Op == token.ARROW {
					recv2[u] = true
				}
			}
		case *ast.ValueSpec:
			if len(x.Names) == 2 && len(x.Values) == 1 {
				if u, ok := x.Values[0].(*ast.UnaryExpr); ok && u.Op == token.ARROW {
					recv2[u] = true
				}
			}
		}
		return true
	})
	mapN := 0
	mapsKept := false
	ast.Inspect(f, func(n ast.Node) bool {
		switch x := n.(type) {
		case *ast.BlockStmt:
			stmtSteps(x.List)
		case *ast.CaseClause:
			stmtSteps(x.Body)
		case *ast.CommClause:
			stmtSteps(x.Body)
		case *ast.FuncDecl:
			curFunc = x.Name.Name
			if x.Recv != nil && len(x.Recv.List) == 1 {
				curFunc = recvName(x.Recv.List[0].Type) + "." + curFunc
			}
			if x.Body != nil {
				if o.DeferAtExit && p.Name == "main" && x.Name.Name == "main" && x.Recv == nil {
					fe.ins(off(x.Body.Lbrace)+1, " defer "+rtAlias+".AtExit(-1); ")
					needRT = true
				}
				step(x.Body)
			}
		case *ast.FuncLit:
			step(x.Body)
		case *ast.ForStmt:
			step(x.Body)
		case *ast.RangeStmt:
			isMap := false
			if tv, ok := p.TypesInfo.Types[x.X]; ok && tv.Type != nil {
				if m, ok := tv.Type.Underlying().(*types.Map); ok {
					isMap = true
					if o.MapRanges {
						ms := MapSite{Site: site(x.Pos()), KeyType: m.Key().String(), Stable: stableKey(m.Key())}
						c.MapSites = append(c.MapSites, ms)
						mapN++
						rewriteMapRange(fe, x, labels[x], off, src, ms.Site, mapN)
						needRT = true
					}
				}
				if _, ok := tv.Type.Underlying().(*types.Chan); ok {
					c.ChanOps = append(c.ChanOps, site(x.Pos())+" range-chan")
					if o.CoopGo && o.CoopChans {
						// for v := range c { body }  ->  for { v, ok := (c).Recv2(); if !ok { break }; body }
						chText := string(src[off(x.X.Pos()):off(x.X.End())])
						mapN++
						okv := "verifok" + strconv.Itoa(mapN)
						pre := ""
						switch {
						case x.Key == nil:
							pre = "_, " + okv + " := (" + chText + ").Recv2(); if !" + okv + " { break }; "
						case x.Tok == token.DEFINE:
							pre = string(src[off(x.Key.Pos()):off(x.Key.End())]) + ", " + okv + " := (" + chText + ").Recv2(); if !" + okv + " { break }; "
						default:
							vv := "verifv" + strconv.Itoa(mapN)
							pre = vv + ", " + okv + " := (" + chText + ").Recv2(); if !" + okv + " { break }; " + string(src[off(x.Key.Pos()):off(x.Key.End())]) + " = " + vv + "; "
						}
						fe.replCoop(off(x.For), off(x.Body.Lbrace)-off(x.For), "for ")
						fe.insCoop(off(x.Body.Lbrace)+1, " "+pre)
					}
				}
			}
			_ = isMap
			step(x.Body)
		case *ast.GoStmt:
			c.GoStmts = append(c.GoStmts, site(x.Pos()))
			if o.CoopGo {
				call := x.Call
				sig, _ := p.TypesInfo.TypeOf(call.Fun).(*types.Signature)
				if sig == nil || sig.Variadic() || len(call.Args) > 4 || sig.Params().Len() != len(call.Args) || call.Ellipsis.IsValid() {
					c.GoUnrewritable = append(c.GoUnrewritable, site(x.Pos()))
				} else {
					// go F(a, b)  ->  rt.Go2(F, a, b)
					fe.replCoop(off(x.Go), off(call.Fun.Pos())-off(x.Go), rtAlias+".Go"+strconv.Itoa(len(call.Args))+"(")
					if len(call.Args) == 0 {
						fe.replCoop(off(call.Lparen), off(call.Rparen)+1-off(call.Lparen), ")")
					} else {
						fe.replCoop(off(call.Lparen), 1, ", ")
					}
					fe.coopRT = true
				}
			}
		case *ast.SelectStmt:
			c.Selects = append(c.Selects, site(x.Pos()))
		case *ast.SendStmt:
			c.ChanOps = append(c.ChanOps, site(x.Pos())+" send")
			if o.CoopGo && o.CoopChans {
				// c <- v   ->   (c).Send(v)
				fe.insCoop(off(x.Chan.Pos()), "(")
				fe.replCoop(off(x.Chan.End()), off(x.Value.Pos())-off(x.Chan.End()), ").Send(")
				fe.insCoop(off(x.Value.End()), ")")
			}
		case *ast.UnaryExpr:
			if x.Op == token.ARROW {
				c.ChanOps = append(c.ChanOps, site(x.Pos())+" recv")
				if o.CoopGo && o.CoopChans {
					method := ".Recv()"
					if recv2[x] {
						method = ".Recv2()"
					}
					// <-c   ->   (c).Recv()
					fe.replCoop(off(x.OpPos), off(x.X.Pos())-off(x.OpPos), "(")
					fe.insCoop(off(x.X.End()), ")"+method)
				}
			}
		case *ast.ChanType:
			c.ChanTypes++
			if o.CoopGo && o.CoopChans && !inMake[x] {
				if _, nested := x.Value.(*ast.ChanType); nested {
					c.ChanUnrewritable = append(c.ChanUnrewritable, site(x.Pos())+" nested channel type")
				}
				// chan T / <-chan T / chan<- T   ->   *rt.Chan[T]
				fe.replCoop(off(x.Pos()), off(x.Value.Pos())-off(x.Pos()), "*"+rtAlias+".Chan[")
				fe.insCoop(off(x.Value.End()), "]")
				fe.coopRT = true
			}
		case *ast.CallExpr:
			// maps.Keys(m) / maps.Values(m) / maps.All(m)  ->  rt.MapsKeys(m, site) ...
			if sel, ok := x.Fun.(*ast.SelectorExpr); ok && o.MapRanges && len(x.Args) == 1 {
				if id, ok := sel.X.(*ast.Ident); ok {
					if pn, ok := p.TypesInfo.Uses[id].(*types.PkgName); ok && pn.Imported().Path() == "maps" {
						if fn := map[string]string{"Keys": "MapsKeys", "Values": "MapsValues", "All": "MapsAll"}[sel.Sel.Name]; fn != "" {
							st := site(x.Pos())
							c.MapSites = append(c.MapSites, MapSite{Site: st, KeyType: "maps." + sel.Sel.Name, Stable: true})
							fe.repl(off(sel.Pos()), off(sel.End())-off(sel.Pos()), rtAlias+"."+fn)
							fe.ins(off(x.Rparen), ", "+strconv.Quote(st))
							needRT = true
							if !mapsKept {
								// keep the import used even if this was its only use
								mapsKept = true
								fe.ins(len(src), "\nvar _ = "+id.Name+".Clone[map[int]int]\n")
							}
						}
					}
				}
			}
			if id, ok := x.Fun.(*ast.Ident); ok && o.CoopGo && o.CoopChans {
				if b, isB := p.TypesInfo.Uses[id].(*types.Builtin); isB {
					switch b.Name() {
					case "make":
						if ct, ok := x.Args[0].(*ast.ChanType); ok {
							inMake[ct] = true
							if _, nested := ct.Value.(*ast.ChanType); nested {
								c.ChanUnrewritable = append(c.ChanUnrewritable, site(x.Pos())+" nested channel type")
							}
							// make(chan T, n)  ->  rt.MakeChan[T](n)
							elem := string(src[off(ct.Value.Pos()):off(ct.Value.End())])
							size := "0"
							if len(x.Args) > 1 {
								size = string(src[off(x.Args[1].Pos()):off(x.Args[1].End())])
							}
							fe.replCoop(off(x.Pos()), off(x.End())-off(x.Pos()), rtAlias+".MakeChan["+elem+"]("+size+")")
							fe.coopRT = true
						}
					case "close":
						// close(c)  ->  (c).Close()
						fe.replCoop(off(x.Pos()), off(x.Args[0].Pos())-off(x.Pos()), "(")
						fe.replCoop(off(x.Args[0].End()), off(x.End())-off(x.Args[0].End()), ").Close()")
					case "len", "cap":
						if tv, ok := p.TypesInfo.Types[x.Args[0]]; ok {
							if _, isChan := tv.Type.Underlying().(*types.Chan); isChan {
								m := map[string]string{"len": "Len", "cap": "Cap"}[b.Name()]
								fe.replCoop(off(x.Pos()), off(x.Args[0].Pos())-off(x.Pos()), "(")
								fe.replCoop(off(x.Args[0].End()), off(x.End())-off(x.Args[0].End()), ")."+m+"()")
							}
						}
					}
				}
			}
		case *ast.BasicLit:
			if x.Kind == token.STRING && strings.Contains(x.Value, "%p") {
				c.PointerFormat = append(c.PointerFormat, site(x.Pos()))
			}
		case *ast.SelectorExpr:
			if id, ok := x.X.(*ast.Ident); ok {
				if pn, ok := p.TypesInfo.Uses[id].(*types.PkgName); ok {
					ip := pn.Imported().Path()
					name := x.Sel.Name
					switch {
					case ip == "sync" || ip == "sync/atomic":
						c.SyncUses = append(c.SyncUses, site(x.Pos())+" "+ip+"."+name)
					case ip == "os" && (name == "Getenv" || name == "Environ" || name == "LookupEnv" || name == "ExpandEnv" || name == "Executable" || name == "UserHomeDir" || name == "TempDir"):
						c.EnvReads = append(c.EnvReads, site(x.Pos())+" os."+name)
					case ip == "runtime" && (name == "NumCPU" || name == "GOMAXPROCS" || name == "NumGoroutine" || name == "Caller" || name == "Callers" || name == "Stack"):
						c.EnvReads = append(c.EnvReads, site(x.Pos())+" runtime."+name)
					case ip == "maps" && (name == "Keys" || name == "Values" || name == "All" || name == "Collect"):
						c.MapIterCalls = append(c.MapIterCalls, site(x.Pos())+" maps."+name)
					}
				}
			}
			if sel, ok := p.TypesInfo.Selections[x]; ok && sel.Obj() != nil && sel.Obj().Pkg() != nil {
				ip := sel.Obj().Pkg().Path()
				name := sel.Obj().Name()
				if ip == "reflect" && (name == "MapRange" || name == "MapKeys") {
					c.MapIterCalls = append(c.MapIterCalls, site(x.Pos())+" reflect."+name)
				}
				if ip == "sync" && name == "Range" {
					c.MapIterCalls = append(c.MapIterCalls, site(x.Pos())+" sync.Map.Range")
				}
			}
		}
		return true
	})

	fe.needRT = needRT
	fe.rtOff = off(f.Name.End())
	return fe, nil
}

func stableKey(t types.Type) bool {
	switch u := t.Underlying().(type) {
	case *types.Basic:
		return u.Info()&(types.IsString|types.IsInteger|types.IsBoolean) != 0
	case *types.Struct:
		for i := 0; i < u.NumFields(); i++ {
			if !stableKey(u.Field(i).Type()) {
				return false
			}
		}
		return true
	case *types.Array:
		return stableKey(u.Elem())
	}
	return false
}

// rewriteMapRange turns
//
//	L: for k, v := range M { body }
//
// into
//
//	{ verifmN := M; L: for _, k := range rt.Keys(verifmN, site) { v, verifokN := verifmN[k]; if !verifokN { continue }; body } }
func rewriteMapRange(fe *fileEdits, x *ast.RangeStmt, lab *ast.LabeledStmt, off func(token.Pos) int, src []byte, site string, n int) {
	it := "verifit" + strconv.Itoa(n)
	mexpr := string(src[off(x.X.Pos()):off(x.X.End())])
	text := func(e ast.Expr) string { return string(src[off(e.Pos()):off(e.End())]) }
	keyName, valName := "", ""
	if x.Key != nil {
		if id, ok := x.Key.(*ast.Ident); !ok || id.Name != "_" {
			keyName = text(x.Key)
		}
	}
	if x.Value != nil {
		if id, ok := x.Value.(*ast.Ident); !ok || id.Name != "_" {
			valName = text(x.Value)
		}
	}
	// L: for k, v := range M { body }
	//   ->
	// L: for verifitN := rt.NewIter(M, site); verifitN.Next(); { k, v := verifitN.Key(), verifitN.Val(); body }
	// (M is evaluated once, as in the original; the label stays on the for statement)
	head := "for " + it + " := " + rtAlias + ".NewIter(" + mexpr + ", " + strconv.Quote(site) + "); " + it + ".Next(); "
	op := " := "
	if x.Tok != token.DEFINE {
		op = " = "
	}
	pre := ""
	switch {
	case keyName != "" && valName != "":
		pre = keyName + ", " + valName + op + it + ".Key(), " + it + ".Val(); "
	case keyName != "":
		pre = keyName + op + it + ".Key(); "
	case valName != "":
		pre = valName + op + it + ".Val(); "
	}
	fe.repl(off(x.For), off(x.Body.Lbrace)-off(x.For), head)
	fe.ins(off(x.Body.Lbrace)+1, " "+pre)
	_ = lab
}

func applyEdits(src []byte, edits []edit) []byte {
	sort.SliceStable(edits, func(i, j int) bool {
		if edits[i].off != edits[j].off {
			return edits[i].off < edits[j].off
		}
		return edits[i].seq < edits[j].seq
	})
	var out []byte
	pos := 0
	for _, e := range edits {
		if e.off < pos {
			// overlapping edit (nested replacement inside a replaced header): skip the
			// inner one; the outer replacement already copied the original text.
			continue
		}
		out = append(out, src[pos:e.off]...)
		out = append(out, e.text...)
		pos = e.off + e.del
	}
	out = append(out, src[pos:]...)
	return out
}

func recvName(e ast.Expr) string {
	switch x := e.(type) {
	case *ast.StarExpr:
		return recvName(x.X)
	case *ast.Ident:
		return x.Name
	case *ast.IndexExpr:
		return recvName(x.X)
	}
	return "?"
}
