package checks

import (
	"fmt"
	"strings"
	"time"

	"verifsim/inject/harness"
	"verifsim/internal/corpus"
	"verifsim/internal/prng"
	"verifsim/internal/sut"
)

// C16 — results do not depend on an object's history.  See DESIGN.md section 6.

type c16Replay struct {
	Grammar string      `json:"grammar"`
	Job     harness.Job `json:"job"`
}

// inputPool holds the inputs histories draw from.
type inputPool struct {
	gr     *corpus.Grammar
	valid  []*corpus.Sentence
	deep   []*corpus.Sentence
	lexOK  bool
	lexTxt []string
}

func newPool(gr *corpus.Grammar, r *prng.R, hasLexer bool, veryDeep bool) *inputPool {
	p := &inputPool{gr: gr, lexOK: hasLexer}
	if gr.HasSyntax() {
		for i := 0; i < 10; i++ {
			p.valid = append(p.valid, gr.Derive(r.Fork("v"), 2+r.Intn(7)))
		}
		for i := 0; i < 3; i++ {
			p.deep = append(p.deep, gr.Derive(r.Fork("d"), 14+r.Intn(40)))
		}
		// a stack far beyond any plausible threshold (hundreds to thousands of entries)
		for _, d := range []int{130, 1100 + r.Intn(1500)} {
			if !veryDeep && d > 200 {
				continue
			}
			s := gr.DeriveDeep(r.Fork("vd"), d)
			for s != nil && len(s.Tokens) > 12000 && d > 100 {
				d /= 2 // cycles with fat bodies: keep the input within a few thousand tokens
				s = gr.DeriveDeep(r.Fork("vd"), d)
			}
			if s != nil {
				p.deep = append(p.deep, s)
			}
		}
	} else {
		// lexer-only grammar: texts are sequences of sample lexemes
		alpha := gr.Alphabet()
		for i := 0; i < 8; i++ {
			var toks []corpus.Token
			for k := 0; k < 1+r.Intn(12); k++ {
				toks = append(toks, prng.Pick(r, alpha))
			}
			txt, _ := gr.Layout(r, toks)
			p.lexTxt = append(p.lexTxt, txt)
		}
	}
	return p
}

// oddPrefixes are legal but unusual ways for a source to begin.
var oddPrefixes = []string{"\ufeff", "\ufeff\ufeff", "\r\n", "\x00", "#!x\n", "\u2028"}

func (p *inputPool) someText(r *prng.R) string {
	if r.Chance(1, 6) {
		return prng.Pick(r, oddPrefixes) + p.plainText(r)
	}
	return p.plainText(r)
}

func (p *inputPool) plainText(r *prng.R) string {
	if len(p.valid) > 0 {
		if r.Chance(1, 4) {
			return p.badText(r)
		}
		return prng.Pick(r, p.valid).Text
	}
	t := prng.Pick(r, p.lexTxt)
	if r.Chance(1, 4) {
		t = corrupt(r, t)
	}
	return t
}

func corrupt(r *prng.R, t string) string {
	junk := []string{"\x00", "§", "\xff", "€", "\t\n", "@@", "\ufeff"}
	i := 0
	if len(t) > 0 {
		i = r.Intn(len(t) + 1)
	}
	return t[:i] + prng.Pick(r, junk) + t[i:]
}

func (p *inputPool) badText(r *prng.R) string {
	s := prng.Pick(r, p.valid)
	if r.Chance(1, 3) {
		return corrupt(r, s.Text)
	}
	toks := p.gr.Mutate(r, s.Tokens, 1+r.Intn(3))
	txt, _ := p.gr.Layout(r, toks)
	return txt
}

func (p *inputPool) badInput(r *prng.R, useTok bool) *harness.Input {
	s := prng.Pick(r, p.valid)
	if len(p.deep) > 0 && r.Chance(1, 3) {
		// an error deep inside a long or deeply nested input (not the multi-thousand-token ones)
		if d := prng.Pick(r, p.deep); len(d.Tokens) < 1500 {
			s = d
		}
	}
	nm := 1 + r.Intn(3)
	if r.Chance(1, 5) {
		nm = 6 + r.Intn(9) // many errors in one input (recovery budgets, counters)
	}
	toks := p.gr.Mutate(r, s.Tokens, nm)
	txt, laid := p.gr.Layout(r, toks)
	if !useTok && r.Chance(1, 3) {
		if r.Chance(1, 4) {
			return &harness.Input{Text: prng.Pick(r, oddPrefixes) + s.Text, Label: "bad"}
		}
		return &harness.Input{Text: corrupt(r, s.Text), Label: "bad"}
	}
	return tokensInput(txt, laid, useTok, "bad")
}

// history draws one history of 2..12 operations.
func (p *inputPool) history(r *prng.R) []harness.Op {
	var ops []harness.Op
	n := 2 + r.Intn(11)
	useTokAll := !p.lexOK
	lexLive := false
	for len(ops) < n {
		useTok := useTokAll || r.Chance(1, 8)
		if len(p.valid) == 0 {
			// lexer-only: only lexer operations
			switch r.Intn(4) {
			case 0:
				ops = append(ops, harness.Op{Op: "lexnew", In: &harness.Input{Text: p.someText(r), FromFile: r.Chance(1, 4)}})
				lexLive = true
			case 1:
				if lexLive {
					ops = append(ops, harness.Op{Op: "lexscan", N: r.Intn(14)})
					if r.Chance(1, 3) {
						ops = append(ops, harness.Op{Op: "lexrefill", In: &harness.Input{Text: p.someText(r)}}, harness.Op{Op: "lexreset"})
					}
				}
			case 2:
				if lexLive {
					ops = append(ops, harness.Op{Op: "lexreset"})
				}
			case 3:
				if lexLive {
					ops = append(ops, harness.Op{Op: "lexctx", Ctx: r.Intn(4)})
				}
			}
			continue
		}
		if r.Chance(1, 7) {
			// a replaying scanner: the previous Parse input again, same token objects
			if prev := lastParse(ops); prev != nil {
				prev.In.Cache = true
				var f *harness.Fault
				if r.Chance(1, 4) {
					f = &harness.Fault{ActionCall: 1 + r.Intn(3), Kind: []string{"error", "panic"}[r.Intn(2)]}
				}
				ops = append(ops, harness.Op{Op: "parse", In: prev.In, Fault: f})
				continue
			}
		}
		switch x := r.Intn(100); {
		case x < 22:
			in := toInput(prng.Pick(r, p.valid), useTok, "valid")
			in.FromFile = !useTok && r.Chance(1, 5)
			ops = append(ops, harness.Op{Op: "parse", In: in})
		case x < 42:
			ops = append(ops, harness.Op{Op: "parse", In: p.badInput(r, useTok)})
		case x < 52:
			s := prng.Pick(r, p.valid)
			k := 1 + r.Intn(len(s.Tokens)+1)
			if len(s.Log) > 0 {
				k = 1 + r.Intn(len(s.Log))
			}
			ops = append(ops, harness.Op{Op: "parse", In: toInput(s, useTok, "valid"), Fault: &harness.Fault{ActionCall: k, Kind: "error"}})
		case x < 60:
			s := prng.Pick(r, p.valid)
			k := 1 + r.Intn(len(s.Tokens)+1)
			if len(s.Log) > 0 {
				k = 1 + r.Intn(len(s.Log))
			}
			ops = append(ops, harness.Op{Op: "parse", In: toInput(s, useTok, "valid"), Fault: &harness.Fault{ActionCall: k, Kind: "panic"}})
		case x < 67:
			s := prng.Pick(r, p.valid)
			ops = append(ops, harness.Op{Op: "parse", In: toInput(s, useTok, "valid"), Fault: &harness.Fault{ScanPanic: 1 + r.Intn(len(s.Tokens)+1)}})
		case x < 75:
			ops = append(ops, harness.Op{Op: "parse", In: toInput(prng.Pick(r, p.deep), useTok, "deep")})
		case x < 78:
			ops = append(ops, harness.Op{Op: "preset"})
		case x < 82:
			ops = append(ops, harness.Op{Op: "pctx", Ctx: r.Intn(4)})
		case x < 88:
			if p.lexOK {
				ops = append(ops, harness.Op{Op: "lexnew", In: &harness.Input{Text: p.someText(r), FromFile: r.Chance(1, 4)}})
				lexLive = true
				ops = append(ops, harness.Op{Op: "lexscan", N: r.Intn(12)})
				ops = append(ops, harness.Op{Op: "lexreset"})
			}
		case x < 91:
			if lexLive {
				ops = append(ops, harness.Op{Op: "lexctx", Ctx: r.Intn(4)})
			}
		case x < 94:
			if lexLive {
				ops = append(ops, harness.Op{Op: "lexscan", N: r.Intn(12)})
				if r.Chance(1, 2) {
					ops = append(ops, harness.Op{Op: "lexrefill", In: &harness.Input{Text: p.someText(r)}}, harness.Op{Op: "lexreset"})
				}
			}
		default:
			if lexLive {
				var f *harness.Fault
				if r.Chance(1, 4) {
					f = &harness.Fault{ActionCall: 1 + r.Intn(4), Kind: []string{"error", "panic"}[r.Intn(2)]}
				} else if r.Chance(1, 2) {
					// actions that modify the tokens they are given (e.g. unquote in place)
					f = &harness.Fault{MutateToks: true}
					ops = append(ops, harness.Op{Op: "parselex", Fault: f})
				}
				ops = append(ops, harness.Op{Op: "parselex", Fault: f})
			}
		}
	}
	// always end with an observation on the used parser
	if len(p.valid) > 0 {
		ops = append(ops, harness.Op{Op: "parse", In: toInput(prng.Pick(r, p.valid), useTokAll, "valid")})
	} else if lexLive {
		ops = append(ops, harness.Op{Op: "lexreset"})
	}
	return ops
}

func lastParse(ops []harness.Op) *harness.Op {
	for i := len(ops) - 1; i >= 0; i-- {
		if ops[i].Op == "parse" && ops[i].In != nil {
			return &ops[i]
		}
	}
	return nil
}

func RunC16(c *Ctx) error {
	g, err := sut.BuildGocc(c.Root, false)
	if err != nil {
		return Harnessf("build: %v", err)
	}
	grammars := parserGrammars(true, true)
	if c.Tier == "thorough" {
		grammars = append(grammars, randomGrammars(c.Seed, 16)...)
	}
	variants := sut.AllVariants[:2]
	if c.Tier == "thorough" {
		variants = sut.AllVariants
	}
	if c.Replay != "" {
		var v struct {
			Plan c16Replay `json:"plan"`
		}
		if err := readJSON(c.Replay, &v); err != nil {
			return Harnessf("replay file: %v", err)
		}
		return replayDriverJob(c, g, grammars, v.Plan.Grammar, v.Plan.Job, false)
	}
	drvs, err := sut.BuildDrivers(g, grammars, variants, false, true)
	if err != nil {
		return Harnessf("%v", err)
	}
	for id, msg := range drvs.Broken {
		return Harnessf("WORKLOAD-INVALID: generated code of workload grammar %s does not build: %s", id, oneLine(msg, 600))
	}
	c.Logf("built gocc and %d drivers (%d variants each, knob found=%v)", len(drvs.List), len(variants), drvs.Census.KnobFound)
	nHist := 60
	if c.Tier == "thorough" {
		nHist = 1500
	}
	type batch struct {
		drv  *sut.Driver
		jobs []harness.Job
		out  *batchOut
	}
	var batches []*batch
	for _, drv := range drvs.List {
		r := prng.Sub(c.Seed, "c16/"+drv.Grammar.ID, 0)
		pool := newPool(drv.Grammar, r, drv.HasLexer, true)
		var jobs []harness.Job
		for _, v := range drv.Variants {
			for h := 0; h < nHist; h++ {
				jobs = append(jobs, harness.Job{ID: len(jobs), Kind: "c16", Variant: v.Name, Knob: stackKnobs[r.Intn(len(stackKnobs))], Ops: pool.history(r.Fork("h"))})
			}
		}
		per := 60
		for i := 0; i < len(jobs); i += per {
			j := i + per
			if j > len(jobs) {
				j = len(jobs)
			}
			batches = append(batches, &batch{drv: drv, jobs: jobs[i:j]})
		}
	}
	err = c.ParallelDo(len(batches), func(w, i int) error {
		b := batches[i]
		out, err := runBatch(c, b.drv, b.jobs, false, 10*time.Minute)
		if err != nil {
			return err
		}
		b.out = out
		return nil
	})
	if err != nil {
		return Harnessf("driver: %v", err)
	}
	evals, histories := 0, 0
	distinct := map[string]bool{}
	stats := map[string]int{}
	var samples []interface{}
	shrunk := map[string]int{}
	for _, b := range batches {
		for ri, r := range b.out.Results {
			job := b.jobs[ri]
			evals += r.Evals
			histories++
			for k, v := range r.Stats {
				stats[k] += v
			}
			if r.Stats["observed-after-abnormal-exit"] > 0 || job.Knob > 0 {
				distinct[b.drv.Grammar.ID+"|"+job.Variant+"|"+r.Digest+"|"+fmt.Sprint(len(job.Ops))] = true
			}
			if len(samples) < 3 && r.Stats["observed-after-abnormal-exit"] > 0 && len(job.Ops) <= 6 {
				samples = append(samples, map[string]interface{}{"grammar": b.drv.Grammar.ID, "variant": job.Variant, "stack_knob": job.Knob, "ops": job.Ops})
			}
			for _, v := range r.Violations {
				min := job
				if gk := v.Class + "|" + b.drv.Grammar.ID; shrunk[gk] < 2 {
					shrunk[gk]++
					min = c16Shrink(c, b.drv, job, v.Class)
				}
				c.Report(&Violation{Class: v.Class, Key: map[string]string{"grammar": b.drv.Grammar.ID}, Size: len(min.Ops),
					Detail: fmt.Sprintf("%s/%s knob=%d, history of %d operations (minimised from %d) [%s]: %s", b.drv.Grammar.ID, job.Variant, job.Knob, len(min.Ops), len(job.Ops), opsSummary(min.Ops), v.Detail),
					Plan:   c16Replay{Grammar: b.drv.Grammar.ID, Job: min}})
				break
			}
		}
		if b.out.Crash != "" {
			job := b.jobs[b.out.CrashAt]
			c.Report(&Violation{Class: "crash", Key: map[string]string{"grammar": b.drv.Grammar.ID},
				Detail: fmt.Sprintf("%s/%s: the process died during history [%s]: %s", b.drv.Grammar.ID, job.Variant, opsSummary(job.Ops), oneLine(b.out.Crash, 400)),
				Plan:   c16Replay{Grammar: b.drv.Grammar.ID, Job: job}})
		}
	}
	c.Logf("%d histories, %d used-vs-fresh comparisons (%d distinct non-trivial histories), stats %v, %d violations", histories, evals, len(distinct), stats, c.NumViolations())
	cov := map[string]interface{}{
		"evaluations":         evals,
		"distinct_nontrivial": len(distinct),
		"rule":                "one evaluation = one observing operation (Parse, or Lexer.Reset followed by scanning to EOF) executed on the used object AND on a freshly created object with the same input, fault plan and Context, compared on result, error fields, Error() text, action log with arguments, scan count and panic; non-trivial history = an observation made after an earlier operation ended abnormally (error / action panic / scanner panic / recovery) or with a reduced stack capacity; distinct by (grammar, variant, digest of all observations, length)",
		"samples":             samples,
		"histories":           histories,
		"grammars":            len(grammars),
		"variants":            len(variants),
		"stack_knob_values":   stackKnobs,
		"reach":               stats,
		"fault_kinds_fired":   map[string]int{"abnormal-exits-of-earlier-operations": stats["abnormal-exits"], "recovered-parses": stats["recovered-parses"]},
		"components":          "real code: generated lexer/parser/errors/token (yield- and knob-instrumented), Go runtime; stub: action callbacks, scanner for token-list inputs and as panic source",
	}
	return c.WriteEvidence("exploration", cov, []string{
		"the reference is a fresh object of the same generated code: nothing beyond the statement is demanded",
		"histories, grammars and inputs are sampled",
	})
}

func opsSummary(ops []harness.Op) string {
	var parts []string
	for _, o := range ops {
		s := o.Op
		if o.In != nil && o.In.Label != "" {
			s += ":" + o.In.Label
		}
		if o.Fault != nil {
			switch {
			case o.Fault.ScanPanic > 0:
				s += fmt.Sprintf("+scanpanic@%d", o.Fault.ScanPanic)
			case o.Fault.ActionCall > 0:
				s += fmt.Sprintf("+%s@%d", o.Fault.Kind, o.Fault.ActionCall)
			case o.Fault.MutateToks:
				s += "+mutating-actions"
			}
		}
		if o.Op == "lexscan" {
			s += fmt.Sprintf("x%d", o.N)
		}
		parts = append(parts, s)
	}
	return strings.Join(parts, ", ")
}

// c16Shrink removes operations (ddmin, single removals to a fixpoint) while a
// violation of the same class persists.
func c16Shrink(c *Ctx, drv *sut.Driver, job harness.Job, class string) harness.Job {
	cur := job
	for round := 0; round < 20 && len(cur.Ops) > 1; round++ {
		var cands []harness.Job
		for i := range cur.Ops {
			j := cur
			j.ID = i
			j.Ops = append(append([]harness.Op{}, cur.Ops[:i]...), cur.Ops[i+1:]...)
			cands = append(cands, j)
		}
		out, err := runBatch(c, drv, cands, false, 5*time.Minute)
		if err != nil || out.Crash != "" {
			return cur
		}
		found := -1
		for ri, r := range out.Results {
			for _, v := range r.Violations {
				if v.Class == class {
					found = ri
					break
				}
			}
			if found >= 0 {
				break
			}
		}
		if found < 0 {
			break
		}
		cur = cands[found]
	}
	cur.ID = 0
	return cur
}
