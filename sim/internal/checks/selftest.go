package checks

import (
	"fmt"
	"os"
	"strings"
	"time"

	"verifsim/inject/gsim"
	"verifsim/inject/harness"
	"verifsim/inject/simrt"
	"verifsim/internal/corpus"
	"verifsim/internal/engine"
	"verifsim/internal/prng"
	"verifsim/internal/sut"
)

// RunSelftest proves determinism of the simulator on a sample of plans: every
// plan is executed many times, in separate processes, at GOMAXPROCS 1, 4 and
// 16, and everything the simulator records (operation log, tick count, map
// site visits, files; outcome digests, schedule hashes) must be identical.
// A divergence is a harness bug: exit 2.
func RunSelftest(c *Ctx) error {
	reps := 12
	if c.Tier == "thorough" {
		reps = 36
	}
	g, err := sut.BuildGocc(c.Root, true)
	if err != nil {
		return Harnessf("build: %v", err)
	}
	workers := make([]*engine.Worker, c.Workers)
	for i := range workers {
		if workers[i], err = engine.NewWorker(c.Root, i); err != nil {
			return Harnessf("%v", err)
		}
	}
	// --- gocc engine ---
	cases := goccWorkload(g.Copy, engine.ModuleName, false, nil)
	r := prng.Sub(c.Seed, "selftest", 0)
	type ejob struct {
		spec engine.Spec
		sig  []string
	}
	var ejobs []*ejob
	for k := 0; k < 12; k++ {
		gc := cases[r.Intn(len(cases))]
		p := simrt.Plan{Map: simrt.MapPlan{Policy: []string{"shuffle", "reverse", "rotate"}[r.Intn(3)], Seed: r.U64()}, Clock: 1700000000, Pid: 99, TickBudget: 4e9}
		if k%3 == 0 {
			p.Faults = []simrt.Fault{{Op: 5 + r.Intn(12), Kind: []string{"err", "short", "torn"}[r.Intn(3)], Errno: "ENOSPC", Keep: -2}}
		}
		s := engine.Spec{GrammarID: gc.ID, GrammarText: gc.Text, GrammarFile: gc.File, Flags: mergeFlags(gc.NeedFlags, [][]string{{}, {"-zip"}, {"-v"}}[r.Intn(3)]), Plan: &p}
		ejobs = append(ejobs, &ejob{spec: s, sig: make([]string, reps)})
	}
	err = c.ParallelDo(len(ejobs)*reps, func(w, i int) error {
		j := ejobs[i/reps]
		s := j.spec
		s.GOMAXPROCS = []int{1, 4, 16}[i%3]
		res, err := workers[w].Exec(g.Sim, &s, 2*time.Minute)
		if err != nil {
			return err
		}
		j.sig[i%reps] = fmt.Sprintf("exit=%d files=%s log=%s", res.Exit, engine.TreeHash(res.Files), strings.Join(res.LogLines, "\n"))
		return nil
	})
	if err != nil {
		return Harnessf("selftest runs: %v", err)
	}
	for _, j := range ejobs {
		for k := 1; k < reps; k++ {
			if j.sig[k] != j.sig[0] {
				return Harnessf("NONDETERMINISM in the gocc engine: plan %s %v differs between repetitions 0 and %d:\n%s\n--- vs ---\n%s", j.spec.GrammarID, j.spec.Flags, k, clipStr(j.sig[0], 1500), clipStr(j.sig[k], 1500))
			}
		}
	}
	c.Logf("gocc engine: %d plans x %d repetitions (GOMAXPROCS 1/4/16): identical logs, ticks, files", len(ejobs), reps)

	// --- drivers ---
	var grs []*corpus.Grammar
	for _, id := range []string{"calc", "errdeep", "nullable"} {
		grs = append(grs, corpus.ByID(corpus.Fixed(), id))
	}
	for _, race := range []bool{false, true} {
		drvs, err := sut.BuildDrivers(g, grs, sut.AllVariants[:2], race, true)
		if err != nil {
			return Harnessf("%v", err)
		}
		for _, drv := range drvs.List {
			rr := prng.Sub(c.Seed, "selftest/"+drv.Grammar.ID, 0)
			pool := newPool(drv.Grammar, rr, drv.HasLexer, false)
			var jobs []harness.Job
			for k := 0; k < 10; k++ {
				if race {
					job := harness.Job{ID: k, Kind: "c17", Variant: drv.Variants[k%2].Name, Knob: stackKnobs[k%4]}
					for t := 0; t < 3; t++ {
						job.Tasks = append(job.Tasks, harness.TaskSpec{Ops: pool.taskOps(rr.Fork("t"))})
					}
					job.Schedule = c17Schedule(rr, 3)
					jobs = append(jobs, job)
				} else {
					jobs = append(jobs, harness.Job{ID: k, Kind: "c16", Variant: drv.Variants[k%2].Name, Knob: stackKnobs[k%4], Ops: pool.history(rr.Fork("h"))})
				}
			}
			sigs := make([]string, reps)
			err = c.ParallelDo(reps, func(w, i int) error {
				os.Setenv("VERIF_DRIVER_GOMAXPROCS", []string{"1", "4", "16"}[i%3])
				out, err := runBatch(c, drv, jobs, race, 5*time.Minute)
				if err != nil {
					return err
				}
				var b strings.Builder
				for _, r := range out.Results {
					fmt.Fprintf(&b, "%d:%s:%s:%d:%d:%d;", r.ID, r.Digest, r.TraceHash, r.Steps, r.Switches, len(r.Violations))
				}
				sigs[i] = b.String()
				return nil
			})
			os.Unsetenv("VERIF_DRIVER_GOMAXPROCS")
			if err != nil {
				return Harnessf("selftest driver runs: %v", err)
			}
			for k := 1; k < reps; k++ {
				if sigs[k] != sigs[0] {
					return Harnessf("NONDETERMINISM in the driver (%s race=%v): repetition %d differs:\n%s\n--- vs ---\n%s", drv.Grammar.ID, race, k, clipStr(sigs[0], 1200), clipStr(sigs[k], 1200))
				}
			}
		}
		c.Logf("drivers (race=%v): %d grammars x 10 jobs x %d repetitions: identical outcome digests, schedule hashes, step counts", race, len(drvs.List), reps)
	}
	_ = gsim.Schedule{}
	fmt.Println("SELFTEST OK")
	return nil
}
