package checks

import (
	"fmt"
	"regexp"
	"sort"
	"strings"
	"time"

	"verifsim/inject/simrt"
	"verifsim/internal/engine"
	"verifsim/internal/prng"
	"verifsim/internal/sut"
)

// C11 — generation is deterministic.  See DESIGN.md section 5.

var conflictRe = regexp.MustCompile(`(\d+) LR-1 conflicts`)

func conflictCount(stdout string) string {
	m := conflictRe.FindStringSubmatch(stdout)
	if m == nil {
		return "0"
	}
	return m[1]
}

type c11Job struct {
	gi, fi  int
	spec    engine.Spec
	kind    string // reference | real | plan
	res     *engine.Result
	label   string
	second  *engine.Result // for "rerun" jobs: result of the second run over the first's output
	rerun   bool
	diff    string // comparison with the reference, computed as soon as the run ends (file contents are then dropped)
	diff2   string
	goFiles int
	between []string     // "interleaved" jobs: flags of the run made in between, in the same directory and home
	base    *engine.Spec // jobs whose spec is another spelling of the configuration: the configuration as the reference ran it
}

type c11Replay struct {
	Spec    engine.Spec  `json:"spec"`
	Rerun   bool         `json:"rerun"`
	Ref     *engine.Spec `json:"ref,omitempty"`     // the reference is this invocation, not Spec under the identity plan
	Between []string     `json:"between,omitempty"` // Spec is run, then the same with these flags, then Spec again: the third run is judged
}

// c11CompareKept: what the reference run wrote must be there again, byte for byte
// (files that a run with other flags left next to them are not this run's business).
func c11CompareKept(ref, got *engine.Result) string {
	e1, c1, f1 := c11Observable(ref)
	e2, c2, f2 := c11Observable(got)
	var d []string
	if got.TimedOut {
		d = append(d, "run did not terminate within the watchdog")
	}
	if e1 != e2 {
		d = append(d, fmt.Sprintf("exit status %d vs %d", e1, e2))
	}
	if c1 != c2 {
		d = append(d, fmt.Sprintf("conflict count %s vs %s", c1, c2))
	}
	sub := map[string][]byte{}
	for name := range f1 {
		if data, ok := f2[name]; ok {
			sub[name] = data
		}
	}
	if df := engine.DiffFiles(f1, sub); len(df) > 0 {
		d = append(d, "generated .go files differ: "+strings.Join(df, " "))
	}
	return strings.Join(d, "; ")
}

func toggleFlag(flags []string, f string) []string {
	var out []string
	found := false
	for _, x := range flags {
		if x == f {
			found = true
			continue
		}
		out = append(out, x)
	}
	if !found {
		out = append(out, f)
	}
	return out
}

// c11Interleaved: Spec, then the same invocation with other flags, then Spec again.
func c11Interleaved(w *engine.Worker, bin string, spec *engine.Spec, between []string, timeout time.Duration) (first, third *engine.Result, err error) {
	if first, err = w.Exec(bin, spec, timeout); err != nil {
		return
	}
	s2 := *spec
	s2.Flags = between
	s2.Pre = "keep"
	if _, err = w.Exec(bin, &s2, timeout); err != nil {
		return
	}
	s3 := *spec
	s3.Pre = "keep"
	third, err = w.Exec(bin, &s3, timeout)
	return
}

func c11FlagSets(tier string) [][]string {
	sets := [][]string{{}, {"-zip"}, {"-a", "-v"}, {"-debug_lexer", "-debug_parser"}}
	if tier == "thorough" {
		sets = append(sets, []string{"-a"}, []string{"-v"}, []string{"-no_lexer"}, []string{"-a", "-zip", "-v"}, []string{"-u"})
	}
	return sets
}

func mergeFlags(need, set []string) []string {
	out := append([]string{}, set...)
	for _, n := range need {
		found := false
		for _, s := range out {
			if s == n {
				found = true
			}
		}
		if !found {
			out = append(out, n)
		}
	}
	return out
}

func hasFlag(fs []string, f string) bool {
	for _, x := range fs {
		if x == f {
			return true
		}
	}
	return false
}

// c11Observable is what the property compares.
func c11Observable(r *engine.Result) (exit int, conflicts string, files map[string][]byte) {
	return r.Exit, conflictCount(r.Stdout), r.GoFiles()
}

func c11Compare(ref, got *engine.Result) string {
	e1, c1, f1 := c11Observable(ref)
	e2, c2, f2 := c11Observable(got)
	var d []string
	if got.TimedOut {
		d = append(d, "run did not terminate within the watchdog")
	}
	if e1 != e2 {
		d = append(d, fmt.Sprintf("exit status %d vs %d", e1, e2))
	}
	if c1 != c2 {
		d = append(d, fmt.Sprintf("conflict count %s vs %s", c1, c2))
	}
	if df := engine.DiffFiles(f1, f2); len(df) > 0 {
		d = append(d, "generated .go files differ: "+strings.Join(df, " "))
	}
	return strings.Join(d, "; ")
}

func RunC11(c *Ctx) error {
	g, err := sut.BuildGocc(c.Root, true)
	if err != nil {
		return Harnessf("build: %v", err)
	}
	c.Logf("built real and instrumented gocc; census: %d map sites, %d step sites, go=%d select=%d chan=%d sync=%d env=%d",
		len(g.Census.MapSites), g.Census.StepSites, len(g.Census.GoStmts), len(g.Census.Selects), len(g.Census.ChanOps), len(g.Census.SyncUses), len(g.Census.EnvReads))
	workers := make([]*engine.Worker, c.Workers)
	for i := range workers {
		if workers[i], err = engine.NewWorker(c.Root, i); err != nil {
			return Harnessf("%v", err)
		}
	}
	if c.Replay != "" {
		return c11Replay1(c, g, workers[0])
	}
	cases := goccWorkload(g.Copy, engine.ModuleName, true, c11Extra(c))
	flagSets := c11FlagSets(c.Tier)
	timeout := 120 * time.Second

	// Pass 1: references (identity plan) and fidelity runs with the real binary.
	type cfg struct {
		gi      int
		flags   []string
		out     string // -o
		pkg     string // -p
		outLink string
		ref     *engine.Result
		real    *engine.Result
		realN   [3]*engine.Result
	}
	var cfgs []*cfg
	for gi, gc := range cases {
		for _, fs := range flagSets {
			flags := mergeFlags(nil, fs)
			if hasFlag(fs, "-no_lexer") && !gc.HasSyntax {
				continue
			}
			if c.Tier == "quick" && gc.IR != nil && gc.IR.Big && (gc.IR.Heavy || !(len(fs) == 0 || len(fs) == 1 && fs[0] == "-zip")) {
				continue // seconds per run: the quick tier keeps two flag sets for the big grammar (and leaves the many-productions one to the thorough tier)
			}
			_ = gc
			cfgs = append(cfgs, &cfg{gi: gi, flags: flags})
		}
	}
	// -o together with -p (in either order), and an output directory reached through a
	// symbolic link that does not exist before the first run
	for gi, gc := range cases {
		switch gc.ID {
		case "calc", "errdeep", "lexonly":
			cfgs = append(cfgs, &cfg{gi: gi, flags: mergeFlags(gc.NeedFlags, nil), out: "gen", pkg: engine.ModuleName + "/vendored/" + gc.ID})
			cfgs = append(cfgs, &cfg{gi: gi, flags: mergeFlags(gc.NeedFlags, nil), out: "lnk/fresh", outLink: "lnk->real/out"})
		}
	}
	identity := simrt.Plan{Map: simrt.MapPlan{Policy: "identity"}, Clock: 1700000000, Pid: 4242, TickBudget: 4e9}
	err = c.ShardedDo(len(cfgs), func(i int) int { return i }, func(w, i int) error {
		cf := cfgs[i]
		gc := cases[cf.gi]
		spec := engine.Spec{GrammarID: gc.ID, GrammarText: gc.Text, GrammarFile: gc.File, Flags: cf.flags, OutSpec: cf.out, Pkg: cf.pkg, OutLink: cf.outLink}
		r, err := workers[w].Exec(g.Real, &spec, timeout)
		if err != nil {
			return err
		}
		cf.real = r
		p := identity
		spec.Plan = &p
		r2, err := workers[w].Exec(g.Sim, &spec, timeout)
		if err != nil {
			return err
		}
		cf.ref = r2
		return nil
	})
	if err != nil {
		return Harnessf("reference runs: %v", err)
	}
	for _, cf := range cfgs {
		if cf.ref.TimedOut || cf.real.TimedOut {
			return Harnessf("reference run of %s %v hit the wall watchdog", cases[cf.gi].ID, cf.flags)
		}
		if d := c11Compare(cf.real, cf.ref); d != "" {
			// The instrumented binary under the identity plan must be the real binary.
			// (A real binary that is itself nondeterministic can trip this: then the
			// real-binary observation pass below reports it as a violation first.)
			c.Logf("FIDELITY mismatch on %s %v: %s", cases[cf.gi].ID, cf.flags, d)
			cf.real = nil
		}
	}

	// Pass 2: plans.
	var jobs []*c11Job
	sites := []string{}
	for _, ms := range g.Census.MapSites {
		sites = append(sites, ms.Site)
	}
	sort.Strings(sites)
	nShuffle := 2
	if c.Tier == "thorough" {
		nShuffle = 12
	}
	for ci, cf := range cfgs {
		gc := cases[cf.gi]
		base := engine.Spec{GrammarID: gc.ID, GrammarText: gc.Text, GrammarFile: gc.File, Flags: cf.flags, OutSpec: cf.out, Pkg: cf.pkg, OutLink: cf.outLink}
		r := prng.Sub(c.Seed, "c11/"+gc.ID+"/"+strings.Join(cf.flags, ","), ci)
		addPlan := func(label string, mp simrt.MapPlan, rerun bool) {
			p := simrt.Plan{Map: mp, Clock: 1700000000 + int64(r.Intn(1<<30)), Rand: r.U64(), Pid: 2 + r.Intn(60000), Host: fmt.Sprintf("h%d", r.Intn(100)), TickBudget: 4e9}
			// goroutine schedule and CPU count (dormant while gocc has no goroutines)
			p.CPUs = []int{1, 2, 4, 16}[r.Intn(4)]
			if mp.Policy != "identity" {
				p.Heap = r.U64() | 1 // addresses, and the order of addresses, of what gocc allocates
			}
			switch r.Intn(4) {
			case 0:
				p.Sched = simrt.SchedPlan{Policy: "main-first"}
			case 1:
				p.Sched = simrt.SchedPlan{Policy: "child-first"}
			default:
				p.Sched = simrt.SchedPlan{Policy: "random", Seed: r.U64(), Every: []int{1, 7, 50, 1000}[r.Intn(4)]}
			}
			s := base
			s.Plan = &p
			s.GOMAXPROCS = []int{1, 4, 16}[r.Intn(3)]
			jobs = append(jobs, &c11Job{gi: cf.gi, fi: ci, spec: s, kind: "plan", label: label, rerun: rerun})
		}
		big := c.Tier == "quick" && gc.IR != nil && gc.IR.Big
		addPlan("reverse", simrt.MapPlan{Policy: "reverse"}, false)
		if len(cf.flags) >= 1 {
			// the same invocation spelled differently: flags in another order, --flag=true
			// forms, ./ in front of the grammar file (identity plan: nothing else varies)
			addPlan("respelled", simrt.MapPlan{Policy: "identity"}, false)
			j := jobs[len(jobs)-1]
			var fl []string
			for i := len(cf.flags) - 1; i >= 0; i-- {
				f := cf.flags[i]
				if i%2 == 0 {
					f = "-" + f + "=true"
				}
				fl = append(fl, f)
			}
			j.spec.Flags = fl
			j.spec.GrammarDir = "."
		}
		if len(cf.flags) >= 1 {
			b := base
			jobs[len(jobs)-1].base = &b
		}
		if cf.pkg != "" && cf.out != "" {
			addPlan("p-before-o", simrt.MapPlan{Policy: "identity"}, false)
			jobs[len(jobs)-1].spec.PkgFirst = true
			b := base
			jobs[len(jobs)-1].base = &b
		}
		if cf.out == "" && (gc.IR != nil && gc.IR.Ambiguous || c.Tier == "thorough" || ci%4 == 0) && !big0(c, gc) {
			// the same invocation before and after a run with OTHER flags in the same
			// directory and home (whatever a run leaves behind, there or elsewhere, must
			// not leak into a run with different flags)
			addPlan("interleaved", simrt.MapPlan{Policy: "identity"}, false)
			jobs[len(jobs)-1].between = toggleFlag(cf.flags, "-a")
			if c.Tier == "thorough" {
				addPlan("interleaved", simrt.MapPlan{Policy: "identity"}, false)
				jobs[len(jobs)-1].between = toggleFlag(cf.flags, "-zip")
			}
		}
		if !big {
			addPlan("rotate", simrt.MapPlan{Policy: "rotate", Seed: r.U64()}, false)
		}
		for k := 0; k < nShuffle; k++ {
			addPlan("shuffle", simrt.MapPlan{Policy: "shuffle", Seed: r.U64()}, k == 0)
		}
		if big {
			continue // no one-site-at-a-time plans for the big grammar in the quick tier
		}
		// one site at a time (only sites the reference run reached with >= 2 entries)
		for _, s := range sites {
			st := cf.ref.Sites[s]
			if st.Multi == 0 || (c.Tier == "quick" && len(cf.flags) > 0) {
				continue
			}
			addPlan("site-reverse", simrt.MapPlan{Policy: "reverse", Only: []simrt.SiteOcc{{Site: s}}}, false)
			if c.Tier == "thorough" {
				addPlan("site-shuffle", simrt.MapPlan{Policy: "shuffle", Seed: r.U64(), Only: []simrt.SiteOcc{{Site: s}}}, false)
			}
		}
	}
	c.Logf("%d grammars x %d flag sets = %d configurations, %d planned runs", len(cases), len(flagSets), len(cfgs), len(jobs))
	err = c.ShardedDo(len(jobs), func(i int) int { return jobs[i].fi }, func(w, i int) error {
		j := jobs[i]
		var r *engine.Result
		var err error
		if j.between != nil {
			var third *engine.Result
			if r, third, err = c11Interleaved(workers[w], g.Sim, &j.spec, j.between, timeout); err != nil {
				return err
			}
			j.second = third
			j.diff2 = c11CompareKept(cfgs[j.fi].ref, third)
			third.Files = nil
		} else if r, err = workers[w].Exec(g.Sim, &j.spec, timeout); err != nil {
			return err
		}
		j.res = r
		j.diff = c11Compare(cfgs[j.fi].ref, r)
		j.goFiles = len(r.GoFiles())
		r.Files = nil
		if j.rerun {
			s2 := j.spec
			s2.Pre = "keep"
			p2 := *j.spec.Plan
			p2.Clock += 86400 * 365 * 5
			p2.Pid += 7
			p2.Map.Seed ^= 0xabcdef
			s2.Plan = &p2
			r2, err := workers[w].Exec(g.Sim, &s2, timeout)
			if err != nil {
				return err
			}
			j.second = r2
			j.diff2 = c11Compare(cfgs[j.fi].ref, r2)
			r2.Files = nil
		}
		return nil
	})
	if err != nil {
		return Harnessf("planned runs: %v", err)
	}

	// Pass 3: the uninstrumented binary at several GOMAXPROCS (observation; also
	// re-validates fidelity).  Always run: it is the only coverage of sources the
	// census cannot put behind a seam.
	type obs struct {
		ci   int
		mp   int
		res  *engine.Result
		diff string
	}
	var obsJobs []*obs
	reps := 1
	if c.Tier == "thorough" {
		reps = 4
	}
	for ci := range cfgs {
		for rep := 0; rep < reps; rep++ {
			for k, mp := range []int{1, 4, 16} {
				if c.Tier == "quick" && k != ci%3 {
					continue
				}
				obsJobs = append(obsJobs, &obs{ci: ci, mp: mp})
			}
		}
	}
	err = c.ShardedDo(len(obsJobs), func(i int) int { return obsJobs[i].ci }, func(w, i int) error {
		o := obsJobs[i]
		cf := cfgs[o.ci]
		gc := cases[cf.gi]
		spec := engine.Spec{GrammarID: gc.ID, GrammarText: gc.Text, GrammarFile: gc.File, Flags: cf.flags, OutSpec: cf.out, Pkg: cf.pkg, OutLink: cf.outLink, GOMAXPROCS: o.mp}
		r, err := workers[w].Exec(g.Real, &spec, timeout)
		if err != nil {
			return err
		}
		o.res = r
		o.diff = c11Compare(cf.ref, r)
		r.Files = nil
		return nil
	})
	if err != nil {
		return Harnessf("observation runs: %v", err)
	}

	// Pass 4 (only if gocc has go statements): the uninstrumented binary built with
	// the race detector, real goroutines on 16 CPUs.  The cooperative scheduler
	// decides interleavings at yield points; what it cannot produce is two
	// goroutines inside the same unsynchronised access at the same time (a
	// "concurrent map writes" crash).  A generator with a data race cannot promise
	// an outcome independent of scheduling, so a report is a violation.
	type rjob struct {
		ci  int
		res *engine.Result
	}
	var rjobs []*rjob
	if g.Race != "" {
		n := 3
		if c.Tier == "thorough" {
			n = 12
		}
		for ci := range cfgs {
			for k := 0; k < n; k++ {
				rjobs = append(rjobs, &rjob{ci: ci})
			}
		}
		err = c.ShardedDo(len(rjobs), func(i int) int { return rjobs[i].ci }, func(w, i int) error {
			cf := cfgs[rjobs[i].ci]
			gc := cases[cf.gi]
			spec := engine.Spec{GrammarID: gc.ID, GrammarText: gc.Text, GrammarFile: gc.File, Flags: cf.flags, OutSpec: cf.out, Pkg: cf.pkg, OutLink: cf.outLink, GOMAXPROCS: 16, RaceLog: true}
			r, err := workers[w].Exec(g.Race, &spec, timeout)
			if err != nil {
				return err
			}
			rjobs[i].res = r
			return nil
		})
		if err != nil {
			return Harnessf("race-build observation runs: %v", err)
		}
		for _, rj := range rjobs {
			cf := cfgs[rj.ci]
			gc := cases[cf.gi]
			spec := engine.Spec{GrammarID: gc.ID, GrammarText: gc.Text, GrammarFile: gc.File, Flags: cf.flags, OutSpec: cf.out, Pkg: cf.pkg, OutLink: cf.outLink, GOMAXPROCS: 16, RaceLog: true}
			if strings.Contains(rj.res.RaceText, "DATA RACE") {
				c.Report(&Violation{Class: "data-race-in-generator", Key: map[string]string{"grammar": gc.ID},
					Detail: fmt.Sprintf("%s %v: gocc built with the race detector reports an unsynchronised access between its own goroutines (its outcome cannot be independent of scheduling): %s", gc.ID, cf.flags, oneLine(clipStr(rj.res.RaceText, 900), 900)),
					Plan:   c11Replay{Spec: spec}})
			} else if d := c11Compare(cf.ref, rj.res); d != "" && rj.res.Exit != 66 {
				c.Report(&Violation{Class: "real-binary-rerun-differs", Key: map[string]string{"grammar": gc.ID},
					Detail: fmt.Sprintf("race-instrumented gocc, GOMAXPROCS=16, %s %v: %s", gc.ID, cf.flags, d), Plan: c11Replay{Spec: spec}})
			}
		}
		c.Logf("%d runs of the race-instrumented real binary (gocc has go statements)", len(rjobs))
	}

	// Judge.
	evals := 0
	distinct := map[string]bool{}
	siteReach := map[string]int{}
	siteVisits := map[string]int{}
	var samples []interface{}
	var ticks int64
	fidelityBad := 0
	for _, cf := range cfgs {
		if cf.real == nil {
			fidelityBad++
		}
	}
	for _, j := range jobs {
		cf := cfgs[j.fi]
		evals++
		ticks += j.res.Ticks
		nontrivial := false
		for s, st := range j.res.Sites {
			siteVisits[s] += st.Visits
			if st.Permuted > 0 {
				siteReach[s] += st.Permuted
				nontrivial = true
			}
		}
		if nontrivial {
			distinct[j.spec.GrammarID+"|"+strings.Join(j.spec.Flags, ",")+"|"+j.res.PermHash] = true
		}
		if len(samples) < 4 && nontrivial && (len(samples) == 0 || j.label != "reverse") {
			samples = append(samples, map[string]interface{}{"grammar": j.spec.GrammarID, "flags": j.spec.Flags, "plan": j.spec.Plan, "gomaxprocs": j.spec.GOMAXPROCS, "permuted_sites": len(j.res.Sites), "go_files": j.goFiles, "exit": j.res.Exit})
		}
		if j.diff != "" {
			c11Report(c, g, workers[0], j, cf.ref, j.diff, false)
		}
		if j.second != nil {
			evals++
			if j.diff2 != "" && j.between != nil {
				c11Report(c, g, workers[0], j, cf.ref, j.diff2, true)
			} else if j.diff2 != "" {
				c11Report(c, g, workers[0], j, cf.ref, "second run in the same directory: "+j.diff2, true)
			}
		}
	}
	obsRuns := 0
	for _, o := range obsJobs {
		cf := cfgs[o.ci]
		obsRuns++
		if d := o.diff; d != "" {
			gc := cases[cf.gi]
			spec := engine.Spec{GrammarID: gc.ID, GrammarText: gc.Text, GrammarFile: gc.File, Flags: cf.flags, OutSpec: cf.out, Pkg: cf.pkg, OutLink: cf.outLink, GOMAXPROCS: o.mp}
			c.Report(&Violation{Class: "real-binary-rerun-differs", Key: map[string]string{"grammar": gc.ID},
				Detail: fmt.Sprintf("uninstrumented gocc, GOMAXPROCS=%d, %s %v: %s", o.mp, gc.ID, cf.flags, d),
				Plan:   c11Replay{Spec: spec}})
		}
	}
	if fidelityBad > 0 && c.NumViolations() == 0 {
		return Harnessf("instrumented gocc under the identity plan differs from the real binary on %d configurations and no nondeterminism of the real binary explains it", fidelityBad)
	}
	var unreached, neverVisited []string
	for _, s := range sites {
		if siteReach[s] == 0 {
			unreached = append(unreached, s)
		}
		if siteVisits[s] == 0 {
			neverVisited = append(neverVisited, s)
		}
	}
	c.Logf("%d runs judged (%d distinct non-trivial), %d real-binary observation runs, %d violations; sites never permuted with >=2 entries: %v", evals, len(distinct), obsRuns, c.NumViolations(), unreached)
	cov := map[string]interface{}{
		"evaluations":                  evals + obsRuns,
		"distinct_nontrivial":          len(distinct),
		"rule":                         "one evaluation = one gocc process run compared with the identity-plan reference of the same (grammar, flags); non-trivial = at least one range-over-map visit with >=2 entries was iterated in a non-sorted order; distinct by (grammar, flags, hash of the permutation vector actually applied)",
		"samples":                      samples,
		"simulated_runs":               evals,
		"observation_runs_real_binary": obsRuns,
		"race_build_observation_runs":  len(rjobs),
		"ticks_simulated":              ticks,
		"configurations":               len(cfgs),
		"grammars":                     len(cases),
		"map_sites":                    len(sites),
		"map_site_permuted_visits":     siteReach,
		"map_sites_never_permuted":     unreached,
		"fault_kinds_fired":            map[string]int{"map-order-permutation": sumInts(siteReach), "clock-jump-between-runs": countRerun(jobs), "pid-change": evals, "gomaxprocs-variation": evals},
		"census_uncontrolled":          map[string]interface{}{"go_statements": g.Census.GoStmts, "selects": g.Census.Selects, "channel_ops": g.Census.ChanOps, "sync_uses": g.Census.SyncUses, "env_reads": g.Census.EnvReads, "map_iter_calls": g.Census.MapIterCalls, "pointer_format": g.Census.PointerFormat, "unsafe": g.Census.UnsafeUses},
		"components":                   "real code: gocc generator (instrumented scratch copy of the working tree), Go runtime, OS file system in a scratch directory; simulated: map iteration order, clock, PRNG seed, pid, hostname; observed only: uninstrumented binary at GOMAXPROCS 1/4/16",
	}
	return c.WriteEvidence("exploration", cov, []string{
		"the source-level seam (range-over-map -> seeded key order) covers every map iteration in gocc's own packages; iteration inside the standard library or x/mod is not permuted",
		"import paths depend on the directory name: all compared runs use the same relative layout",
		"text of diagnostics and *.txt listings written by -v are outside the property and not compared",
	})
}

func sumInts(m map[string]int) int {
	n := 0
	for _, v := range m {
		n += v
	}
	return n
}

func countRerun(jobs []*c11Job) int {
	n := 0
	for _, j := range jobs {
		if j.second != nil {
			n++
		}
	}
	return n
}

// c11Report minimises the set of permuted sites and records the violation.
func c11Report(c *Ctx, g *sut.Gocc, w *engine.Worker, j *c11Job, ref *engine.Result, detail string, second bool) {
	if c.NumViolations() >= 8 {
		c.Report(&Violation{Class: "output-differs", Key: map[string]string{"grammar": j.spec.GrammarID}, Detail: detail, Plan: c11Replay{Spec: j.spec, Rerun: second}})
		return
	}
	if j.between != nil && second {
		c.Report(&Violation{Class: "output-differs", Key: map[string]string{"grammar": j.spec.GrammarID, "site": "other-flags-in-between"},
			Detail: fmt.Sprintf("%s %v: run, then run with %v in the same directory and home, then run again with %v: the third run is not the first (state kept across runs leaks between flag sets): %s", j.spec.GrammarID, j.spec.Flags, j.between, j.spec.Flags, detail),
			Plan:   c11Replay{Spec: j.spec, Between: j.between}})
		return
	}
	if j.base != nil && !second {
		c.Report(&Violation{Class: "output-differs", Key: map[string]string{"grammar": j.spec.GrammarID, "site": "same-invocation-spelled-differently"},
			Detail: fmt.Sprintf("%s: the invocation %s and the invocation %s mean the same configuration and everything simulated is identical, yet: %s", j.spec.GrammarID, c11Spelling(j.base), c11Spelling(&j.spec), detail),
			Plan:   c11Replay{Spec: j.spec, Ref: j.base}})
		return
	}
	spec := j.spec
	culprit := ""
	// Is the output unstable even when every simulated choice is the reference's?
	{
		p := simrt.Plan{Map: simrt.MapPlan{Policy: "identity"}, Clock: 1700000000, Pid: 4242, TickBudget: 4e9}
		s0 := spec
		s0.Plan = &p
		s0.Pre = ""
		for k := 0; k < 3; k++ {
			if r, err := w.Exec(g.Sim, &s0, 120*time.Second); err == nil {
				if d := c11Compare(ref, r); d != "" {
					c.Report(&Violation{Class: "output-differs", Key: map[string]string{"grammar": spec.GrammarID, "site": "outside-the-seams"},
						Detail: fmt.Sprintf("%s %v: two runs with IDENTICAL simulated map orders, clock, pid and schedule differ (a source of nondeterminism outside the simulator's seams, e.g. map iteration inside a library or real goroutine timing): %s", spec.GrammarID, spec.Flags, d),
						Plan:   c11Replay{Spec: s0}})
					return
				}
			}
		}
	}
	if spec.Plan.Heap != 0 {
		// everything as in the reference except where the allocator places things
		p := simrt.Plan{Map: simrt.MapPlan{Policy: "identity"}, Clock: 1700000000, Pid: 4242, TickBudget: 4e9, Heap: spec.Plan.Heap}
		s2 := j.spec
		s2.Plan = &p
		if r, err := w.Exec(g.Sim, &s2, 120*time.Second); err == nil {
			if d := c11Compare(ref, r); d != "" {
				c.Report(&Violation{Class: "output-differs", Key: map[string]string{"grammar": spec.GrammarID, "site": "heap-addresses"},
					Detail: fmt.Sprintf("%s %v: with every map order sorted and the same clock, pid and schedule, a differently fragmented heap (seed %d) alone changes the result - the output depends on memory addresses: %s", spec.GrammarID, spec.Flags, p.Heap, d),
					Plan:   c11Replay{Spec: s2}})
				return
			}
		}
	}
	if !second && (spec.Plan.Sched.Policy != "" || spec.Plan.CPUs != 0) {
		// map order sorted everywhere, only the goroutine schedule / CPU count of the plan
		p := *j.spec.Plan
		p.Map = simrt.MapPlan{Policy: "identity"}
		p.Heap = 0
		s2 := j.spec
		s2.Plan = &p
		if r, err := w.Exec(g.Sim, &s2, 120*time.Second); err == nil {
			if d := c11Compare(ref, r); d != "" {
				c.Report(&Violation{Class: "output-differs", Key: map[string]string{"grammar": spec.GrammarID, "site": "goroutine-schedule"},
					Detail: fmt.Sprintf("%s %v: with every map order sorted, the goroutine schedule %+v with %d CPUs alone changes the result (reference: main-first): %s", spec.GrammarID, spec.Flags, p.Sched, p.CPUs, d),
					Plan:   c11Replay{Spec: s2}})
				return
			}
		}
	}
	if !second && len(spec.Plan.Map.Only) == 0 {
		// which single site reproduces it?
		var sites []string
		for s, st := range j.res.Sites {
			if st.Permuted > 0 {
				sites = append(sites, s)
			}
		}
		sort.Strings(sites)
		for _, s := range sites {
			p := *spec.Plan
			p.Map.Only = []simrt.SiteOcc{{Site: s}}
			s2 := spec
			s2.Plan = &p
			r, err := w.Exec(g.Sim, &s2, 120*time.Second)
			if err == nil && c11Compare(ref, r) != "" {
				spec = s2
				culprit = s
				detail = c11Compare(ref, r)
				break
			}
		}
	} else if len(spec.Plan.Map.Only) == 1 {
		culprit = spec.Plan.Map.Only[0].Site
	}
	if culprit != "" {
		detail = "permuting only the range-over-map loop at " + culprit + ": " + detail
	}
	c.Report(&Violation{Class: "output-differs", Key: map[string]string{"grammar": spec.GrammarID, "site": culprit},
		Detail: fmt.Sprintf("%s %v policy=%s: %s", spec.GrammarID, spec.Flags, spec.Plan.Map.Policy, detail), Plan: c11Replay{Spec: spec, Rerun: second}})
}

func c11Spelling(s *engine.Spec) string {
	a := append([]string{}, s.Flags...)
	o, p := "", ""
	if s.OutSpec != "" {
		o = " -o " + s.OutSpec
	}
	if s.Pkg != "" {
		p = " -p " + s.Pkg
	}
	if s.PkgFirst {
		o, p = p, o
	}
	gd := ""
	if s.GrammarDir != "" {
		gd = s.GrammarDir + "/"
	}
	return "`gocc " + strings.TrimSpace(strings.Join(a, " ")+o+p) + " " + gd + s.GrammarFile + "`"
}

func big0(c *Ctx, gc *GrammarCase) bool { return c.Tier == "quick" && gc.IR != nil && gc.IR.Big }

func c11Replay1(c *Ctx, g *sut.Gocc, w *engine.Worker) error {
	var v struct {
		Plan  c11Replay `json:"plan"`
		Class string    `json:"class"`
	}
	if err := readJSON(c.Replay, &v); err != nil {
		return Harnessf("replay file: %v", err)
	}
	spec := v.Plan.Spec
	bin := g.Sim
	if spec.RaceLog {
		if g.Race == "" {
			c.Logf("replay: the tree has no go statements any more; nothing to observe")
			return nil
		}
		for i := 0; i < 30; i++ {
			r, err := w.Exec(g.Race, &spec, 120*time.Second)
			if err != nil {
				return Harnessf("%v", err)
			}
			if strings.Contains(r.RaceText, "DATA RACE") {
				c.Report(&Violation{Class: "data-race-in-generator", Key: map[string]string{"grammar": spec.GrammarID}, Detail: oneLine(clipStr(r.RaceText, 900), 900), Plan: v.Plan})
				return nil
			}
		}
		c.Logf("replay did not reproduce a race report in 30 runs")
		return nil
	}
	refSpec := spec
	if v.Plan.Ref != nil {
		refSpec = *v.Plan.Ref
	}
	if spec.Plan == nil {
		bin = g.Real
	} else {
		p := simrt.Plan{Map: simrt.MapPlan{Policy: "identity"}, Clock: 1700000000, Pid: 4242, TickBudget: 4e9}
		refSpec.Plan = &p
	}
	refSpec.GOMAXPROCS = 0
	ref, err := w.Exec(bin, &refSpec, 120*time.Second)
	if err != nil {
		return Harnessf("%v", err)
	}
	reps := 1
	if spec.Plan == nil {
		reps = 20 // observation of the real binary: a handful of runs
	}
	for i := 0; i < reps; i++ {
		if v.Plan.Between != nil {
			_, third, err := c11Interleaved(w, bin, &spec, v.Plan.Between, 120*time.Second)
			if err != nil {
				return Harnessf("%v", err)
			}
			if d := c11CompareKept(ref, third); d != "" {
				c.Report(&Violation{Class: v.Class, Key: map[string]string{"grammar": spec.GrammarID}, Detail: d, Plan: v.Plan})
				return nil
			}
			continue
		}
		r, err := w.Exec(bin, &spec, 120*time.Second)
		if err != nil {
			return Harnessf("%v", err)
		}
		if v.Plan.Rerun {
			s2 := spec
			s2.Pre = "keep"
			p2 := *spec.Plan
			p2.Clock += 86400 * 365 * 5
			p2.Pid += 7
			p2.Map.Seed ^= 0xabcdef
			s2.Plan = &p2
			if r, err = w.Exec(bin, &s2, 120*time.Second); err != nil {
				return Harnessf("%v", err)
			}
		}
		if d := c11Compare(ref, r); d != "" {
			c.Report(&Violation{Class: v.Class, Key: map[string]string{"grammar": spec.GrammarID}, Detail: d, Plan: v.Plan})
			return nil
		}
	}
	c.Logf("replay did not reproduce a difference")
	return nil
}
