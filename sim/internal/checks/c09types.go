package checks

import (
	"bytes"
	"fmt"
	"go/ast"
	"go/importer"
	"go/parser"
	"go/token"
	"go/types"
	"path"
	"sort"
	"strings"
	"sync"

	"verifsim/inject"
	"verifsim/internal/engine"
)

// In-process compilation oracle: every generated tree is parsed and type-checked
// with go/types (what the compiler's front end accepts), the standard library
// coming from one shared source importer.  It costs milliseconds per tree, so it
// runs on EVERY exit-0 tree; `go build` is kept for a sample as a cross-check.

var (
	stdOnce sync.Once
	stdMu   sync.Mutex
	stdImp  types.ImporterFrom
	stubMu  sync.Mutex
	stubPkg map[string]*types.Package
	stubErr error
)

type lockedStd struct{}

func (lockedStd) Import(p string) (*types.Package, error) { return lockedStd{}.ImportFrom(p, "", 0) }
func (lockedStd) ImportFrom(p, dir string, mode types.ImportMode) (*types.Package, error) {
	stdOnce.Do(func() {
		stdImp = importer.ForCompiler(token.NewFileSet(), "source", nil).(types.ImporterFrom)
	})
	stdMu.Lock()
	defer stdMu.Unlock()
	return stdImp.ImportFrom(p, dir, mode)
}

type treeImporter struct {
	fset  *token.FileSet
	files map[string][]*ast.File // import path -> files
	done  map[string]*types.Package
	busy  map[string]bool
	errs  []string
}

func (ti *treeImporter) Import(p string) (*types.Package, error) {
	if p != engine.ModuleName && !strings.HasPrefix(p, engine.ModuleName+"/") {
		return lockedStd{}.Import(p)
	}
	if pk, ok := ti.done[p]; ok {
		return pk, nil
	}
	if pk, ok := stubPkg[p]; ok {
		return pk, nil
	}
	fs, ok := ti.files[p]
	if !ok {
		return nil, fmt.Errorf("package %s is not in the generated tree", p)
	}
	if ti.busy[p] {
		return nil, fmt.Errorf("import cycle through %s", p)
	}
	ti.busy[p] = true
	conf := types.Config{Importer: ti, Error: func(err error) {
		if len(ti.errs) < 6 {
			ti.errs = append(ti.errs, err.Error())
		}
	}}
	pk, _ := conf.Check(p, ti.fset, fs, nil)
	ti.busy[p] = false
	ti.done[p] = pk
	return pk, nil
}

// stubs type-checks the action stub packages once.
func stubs() error {
	stubMu.Lock()
	defer stubMu.Unlock()
	if stubPkg != nil || stubErr != nil {
		return stubErr
	}
	fset := token.NewFileSet()
	ti := &treeImporter{fset: fset, files: map[string][]*ast.File{}, done: map[string]*types.Package{}, busy: map[string]bool{}}
	for _, name := range []string{"gsim", "act"} {
		ents, err := inject.FS.ReadDir(name)
		if err != nil {
			stubErr = err
			return err
		}
		for _, e := range ents {
			if !strings.HasSuffix(e.Name(), ".go") || e.Name() == "race_on.go" {
				continue
			}
			data, _ := inject.FS.ReadFile(name + "/" + e.Name())
			data = bytes.ReplaceAll(data, []byte(`"verifsim/inject/`), []byte(`"`+engine.ModuleName+`/`))
			f, err := parser.ParseFile(fset, name+"/"+e.Name(), data, 0)
			if err != nil {
				stubErr = err
				return err
			}
			ip := engine.ModuleName + "/" + name
			ti.files[ip] = append(ti.files[ip], f)
		}
	}
	stubPkg = map[string]*types.Package{}
	for _, name := range []string{"gsim", "act"} {
		pk, err := ti.Import(engine.ModuleName + "/" + name)
		if err != nil || len(ti.errs) > 0 {
			stubErr = fmt.Errorf("action stub does not type-check: %v %v", err, ti.errs)
			stubPkg = nil
			return stubErr
		}
		stubPkg[engine.ModuleName+"/"+name] = pk
	}
	return nil
}

// typecheckTree returns "" if every package of the tree type-checks, else the
// first few errors.  A harness problem is reported with the prefix "harness: ".
func typecheckTree(files map[string][]byte) string {
	if err := stubs(); err != nil {
		return "harness: " + err.Error()
	}
	fset := token.NewFileSet()
	ti := &treeImporter{fset: fset, files: map[string][]*ast.File{}, done: map[string]*types.Package{}, busy: map[string]bool{}}
	var names []string
	for n := range files {
		if strings.HasSuffix(n, ".go") {
			names = append(names, n)
		}
	}
	sort.Strings(names)
	for _, n := range names {
		f, err := parser.ParseFile(fset, n, files[n], 0)
		if err != nil {
			return "syntax: " + err.Error()
		}
		ip := path.Join(engine.ModuleName, path.Dir(n))
		ti.files[ip] = append(ti.files[ip], f)
	}
	var pkgs []string
	for ip := range ti.files {
		pkgs = append(pkgs, ip)
	}
	sort.Strings(pkgs)
	for _, ip := range pkgs {
		if _, err := ti.Import(ip); err != nil {
			ti.errs = append(ti.errs, err.Error())
		}
	}
	return strings.Join(ti.errs, "; ")
}
