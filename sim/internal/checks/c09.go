package checks

import (
	"bytes"
	"fmt"
	"go/parser"
	"go/token"
	"os"
	"path"
	"path/filepath"
	"sort"
	"strings"
	"sync"
	"time"

	"verifsim/inject/simrt"
	"verifsim/internal/corpus"
	"verifsim/internal/engine"
	"verifsim/internal/prng"
	"verifsim/internal/scratch"
	"verifsim/internal/sut"
)

// C09 — gocc terminates; exit status zero means complete, compilable output.
// See DESIGN.md section 4.

const c09TickBudget = 4e9

type c09Env struct {
	Via  string `json:"via,omitempty"`  // "symlink": cwd entered through a symbolic link
	GDir string `json:"gdir,omitempty"` // where the grammar file lives relative to cwd (see engine.Spec.GrammarDir)
	Cwd  string `json:"cwd,omitempty"`
	Out  string `json:"out,omitempty"`
	Pkg  bool   `json:"pkg,omitempty"` // pass -p <module>/<cwd>
	Pre  string `json:"pre,omitempty"` // "" fresh | other | debris | file
}

type c09Plan struct {
	Spec      engine.Spec   `json:"spec"`
	Env       c09Env        `json:"env"`
	Faults    []simrt.Fault `json:"faults,omitempty"`
	FullAfter int64         `json:"full_after,omitempty"` // the disk is full after this many bytes written
	Rerun     bool          `json:"rerun,omitempty"`      // after the faulted run, run again fault-free in the same directory
	Class     string        `json:"fault_class,omitempty"`
}

type c09Case struct {
	gc    *GrammarCase
	flags []string
	env   c09Env
	ref   *engine.Result
	spec  engine.Spec
}

func (cs *c09Case) key() string {
	return cs.gc.ID + "|" + strings.Join(cs.flags, ",") + "|" + cs.env.Cwd + "|" + cs.env.Out + "|" + fmt.Sprint(cs.env.Pkg) + "|" + cs.env.Pre + "|" + cs.env.GDir + "|" + cs.env.Via
}

var allFlags = []string{"-a", "-zip", "-no_lexer", "-debug_lexer", "-debug_parser", "-v"}

func flagSubsets() [][]string {
	var out [][]string
	for m := 0; m < 1<<len(allFlags); m++ {
		var fs []string
		for i, f := range allFlags {
			if m&(1<<i) != 0 {
				fs = append(fs, f)
			}
		}
		out = append(out, fs)
	}
	return out
}

func c09Spec(gc *GrammarCase, flags []string, env c09Env) engine.Spec {
	s := engine.Spec{GrammarID: gc.ID, GrammarFile: gc.File, Flags: flags, Cwd: env.Cwd, OutSpec: env.Out, GrammarDir: env.GDir, CwdVia: env.Via}
	pkgPath := engine.ModuleName
	if env.Cwd != "" {
		pkgPath += "/" + env.Cwd
	}
	if env.Pkg {
		s.Pkg = pkgPath
	}
	// the rendered grammar's imports must match where the packages will live
	outPkg := path.Join(engine.ModuleName, s.OutDir())
	if gc.IR != nil {
		s.GrammarText = gc.IR.Render(outPkg, engine.ModuleName+"/act")
	} else {
		s.GrammarText = gc.Text
	}
	return s
}

// expectedPackages lists what the configuration calls for.
func expectedPackages(gc *GrammarCase, flags []string) []string {
	pk := []string{"token", "util"}
	if !hasFlag(flags, "-no_lexer") {
		pk = append(pk, "lexer")
	}
	if (gc.IR != nil || gc.SyntaxKnown) && gc.HasSyntax {
		pk = append(pk, "parser", "errors")
	}
	return pk
}

// c09Complete implements oracle 2(a): each expected package is a directory of
// .go files that parse and declare that package.
func c09Complete(files map[string][]byte, outDir string, pkgs []string) string {
	var problems []string
	for _, pk := range pkgs {
		prefix := filepath.ToSlash(filepath.Join(outDir, pk)) + "/"
		n := 0
		for name, data := range files {
			if !strings.HasPrefix(name, prefix) || strings.Contains(name[len(prefix):], "/") || !strings.HasSuffix(name, ".go") {
				continue
			}
			n++
			fset := token.NewFileSet()
			f, err := parser.ParseFile(fset, name, data, parser.PackageClauseOnly)
			if err != nil {
				problems = append(problems, fmt.Sprintf("%s does not parse as Go (%d bytes): %v", name, len(data), err))
				continue
			}
			if f.Name.Name != pk {
				problems = append(problems, fmt.Sprintf("%s declares package %s", name, f.Name.Name))
			}
			if _, err := parser.ParseFile(fset, name, data, 0); err != nil {
				problems = append(problems, fmt.Sprintf("%s does not parse as Go: %v", name, err))
			}
		}
		if n == 0 {
			problems = append(problems, "package "+pk+" is missing under "+outDir)
		}
	}
	sort.Strings(problems)
	return strings.Join(problems, "; ")
}

// c09ImportsResolve checks, for every generated .go file, that each import of a
// package of the scratch module names a directory that exists in the tree and is
// spelled the way the go tool accepts (no empty, "." or ".." element, no trailing
// slash).  It is the cheap half of oracle 3 and runs on every exit-0 tree.
func c09ImportsResolve(files map[string][]byte, outDir string) string {
	dirs := map[string]bool{}
	for name := range files {
		if strings.HasSuffix(name, ".go") {
			dirs[path.Dir(name)] = true
		}
	}
	var problems []string
	prefix := filepath.ToSlash(outDir)
	for name, data := range files {
		if !strings.HasSuffix(name, ".go") || prefix != "." && prefix != "" && !strings.HasPrefix(name, prefix+"/") {
			continue
		}
		fset := token.NewFileSet()
		f, err := parser.ParseFile(fset, name, data, parser.ImportsOnly)
		if err != nil {
			continue // reported by c09Complete
		}
		for _, im := range f.Imports {
			p := strings.Trim(im.Path.Value, "\"`")
			if p != engine.ModuleName && !strings.HasPrefix(p, engine.ModuleName+"/") {
				continue
			}
			if p != path.Clean(p) || strings.HasSuffix(p, "/") {
				problems = append(problems, fmt.Sprintf("%s imports %q, which is not a well-formed import path", name, p))
				continue
			}
			rel := strings.TrimPrefix(strings.TrimPrefix(p, engine.ModuleName), "/")
			if rel == "act" || rel == "gsim" {
				continue
			}
			if !dirs[rel] {
				problems = append(problems, fmt.Sprintf("%s imports %q, but no package was written to %s", name, p, rel))
			}
		}
	}
	sort.Strings(problems)
	if len(problems) > 3 {
		problems = append(problems[:3], fmt.Sprintf("(+%d more)", len(problems)-3))
	}
	return strings.Join(problems, "; ")
}

// c09SameAsRef implements oracle 2(b).
func c09SameAsRef(ref, got map[string][]byte) string {
	var problems []string
	for name, data := range ref {
		if !strings.HasSuffix(name, ".go") {
			continue
		}
		g, ok := got[name]
		if !ok {
			problems = append(problems, name+" missing")
		} else if !bytes.Equal(g, data) {
			problems = append(problems, fmt.Sprintf("%s differs (%d bytes, fault-free run wrote %d)", name, len(g), len(data)))
		}
	}
	sort.Strings(problems)
	return strings.Join(problems, "; ")
}

func isOutputOp(call string) bool {
	switch call {
	case "MkdirAll", "Mkdir", "WriteFile", "Create", "OpenFile", "CreateTemp", "MkdirTemp", "Write", "WriteAt", "Sync", "Close", "Rename", "Truncate", "Remove", "RemoveAll":
		return true
	}
	return false
}

func errnosFor(call string) []string {
	switch call {
	case "MkdirAll", "Mkdir", "MkdirTemp":
		return []string{"ENOSPC", "EACCES", "EROFS", "ENOTDIR"}
	case "WriteFile", "Create", "OpenFile", "CreateTemp":
		return []string{"ENOSPC", "EACCES", "EROFS", "EMFILE", "EIO", "EISDIR"}
	case "Write", "WriteAt", "Sync", "Close", "Truncate":
		return []string{"ENOSPC", "EIO", "EDQUOT"}
	case "Rename", "Remove", "RemoveAll":
		return []string{"EACCES", "EROFS", "EIO"}
	case "ReadFile", "Open", "Read":
		return []string{"ENOENT", "EIO", "EISDIR", "EACCES"}
	case "Stat", "Lstat":
		return []string{"EACCES", "EIO"}
	case "Getwd":
		return []string{"ENOENT"}
	}
	return []string{"EIO"}
}

type c09Job struct {
	cs     *c09Case
	plan   c09Plan
	res    *engine.Result
	rerun  *engine.Result
	output bool // fault hits the output path (oracle 2b applies)
}

type c09State struct {
	c       *Ctx
	g       *sut.Gocc
	workers []*engine.Worker
	timeout time.Duration
	cases   []*GrammarCase

	buildMu    sync.Mutex
	buildCache map[string]string // tree hash -> "" ok | error text
}

// prepare puts the output directory of worker w into the state env.Pre asks for.
func (st *c09State) prepare(w *engine.Worker, cs *c09Case) error {
	if err := w.Clean(); err != nil {
		return err
	}
	switch cs.env.Pre {
	case "":
		return nil
	case "other", "other-big":
		// a complete earlier output of another grammar in the same place
		// (other-big: of a grammar with over a thousand LR(1) states)
		var other *GrammarCase
		for _, gc := range st.cases {
			if gc.IR != nil && gc.ID != cs.gc.ID && gc.HasSyntax && len(gc.NeedFlags) == 0 && (cs.env.Pre == "other" && !gc.IR.Big || cs.env.Pre == "other-big" && gc.ID == "bigexpr") {
				other = gc
				break
			}
		}
		if other == nil {
			return nil
		}
		s := c09Spec(other, nil, cs.env)
		p := simrt.Plan{Map: simrt.MapPlan{Policy: "identity"}, TickBudget: c09TickBudget}
		s.Plan = &p
		s.Pre = "keep"
		_, err := w.Exec(st.g.Sim, &s, st.timeout)
		return err
	case "debris":
		// what a run that crashed half-way leaves behind
		s := cs.spec
		n := len(cs.ref.Ops)
		p := simrt.Plan{Map: simrt.MapPlan{Policy: "identity"}, TickBudget: c09TickBudget, Faults: []simrt.Fault{{Op: n/2 + 1, Kind: "torn", Keep: -2}}}
		s.Plan = &p
		s.Pre = "keep"
		_, err := w.Exec(st.g.Sim, &s, st.timeout)
		return err
	case "otherflags":
		// a complete earlier output of the SAME grammar generated with -zip toggled
		// (compressed and plain tables are different sets of bytes in the same files)
		fl := append([]string{}, cs.flags...)
		if hasFlag(fl, "-zip") {
			var nf []string
			for _, f := range fl {
				if f != "-zip" {
					nf = append(nf, f)
				}
			}
			fl = nf
		} else {
			fl = append(fl, "-zip")
		}
		s := c09Spec(cs.gc, fl, cs.env)
		p := simrt.Plan{Map: simrt.MapPlan{Policy: "identity"}, TickBudget: c09TickBudget}
		s.Plan = &p
		s.Pre = "keep"
		_, err := w.Exec(st.g.Sim, &s, st.timeout)
		return err
	case "debris-other":
		// what a run on ANOTHER, larger grammar left behind when it died in the middle of
		// writing a file (the target's files are shorter than the debris)
		var other *GrammarCase
		for _, gc := range st.cases {
			if gc.IR != nil && gc.ID == "stmtexpr" {
				other = gc
			}
		}
		if other == nil || other.ID == cs.gc.ID {
			return nil
		}
		s := c09Spec(other, mergeFlags(other.NeedFlags, cs.flags), cs.env)
		ref, err := func() (*engine.Result, error) {
			p := simrt.Plan{Map: simrt.MapPlan{Policy: "identity"}, TickBudget: c09TickBudget}
			s2 := s
			s2.Plan = &p
			s2.Pre = "keep"
			return w.Exec(st.g.Sim, &s2, st.timeout)
		}()
		if err != nil {
			return err
		}
		// die inside the k-th write (k derived from the configuration), keeping all but one byte
		var writes []int
		for _, op := range ref.Ops {
			if op.Call == "WriteFile" || op.Call == "Write" {
				writes = append(writes, op.N)
			}
		}
		if len(writes) == 0 {
			return nil
		}
		k := writes[(len(cs.key())+len(cs.flags))%len(writes)]
		if err := w.Clean(); err != nil {
			return err
		}
		p := simrt.Plan{Map: simrt.MapPlan{Policy: "identity"}, TickBudget: c09TickBudget, Faults: []simrt.Fault{{Op: k, Kind: "torn", Keep: -1}}}
		s.Plan = &p
		s.Pre = "keep"
		_, err = w.Exec(st.g.Sim, &s, st.timeout)
		return err
	case "corrupt":
		// a complete earlier output of the SAME configuration whose files were damaged in
		// place: same names, same lengths, different bytes (zero-filled blocks after a
		// power loss, an in-place edit)
		for name, data := range cs.ref.Files {
			if !strings.HasSuffix(name, ".go") {
				continue
			}
			fp := filepath.Join(w.Mod, name)
			if err := os.MkdirAll(filepath.Dir(fp), 0o755); err != nil {
				return err
			}
			junk := bytes.Repeat([]byte{0}, len(data))
			if len(name)%2 == 0 {
				junk = bytes.Repeat([]byte("x"), len(data))
			}
			if err := os.WriteFile(fp, junk, 0o644); err != nil {
				return err
			}
		}
		return nil
	case "gomod-dir":
		// a DIRECTORY named go.mod in the working directory (the real go.mod is further up)
		if cs.env.Cwd == "" {
			return nil
		}
		return os.MkdirAll(filepath.Join(w.Mod, cs.env.Cwd, "go.mod"), 0o755)
	case "outfile":
		// the output directory itself exists as a regular file
		dir := filepath.Join(w.Mod, cs.spec.OutDir())
		if cs.spec.OutDir() == "" || cs.spec.OutDir() == "." || cs.spec.OutDir() == cs.env.Cwd {
			return nil
		}
		if err := os.MkdirAll(filepath.Dir(dir), 0o755); err != nil {
			return err
		}
		return os.WriteFile(dir, []byte("a file, not a directory\n"), 0o644)
	case "dangling", "filedir":
		// dangling: where one of the package directories belongs there is a symbolic link
		// to nowhere; filedir: where one of the generated FILES belongs there is a directory
		pks := expectedPackages(cs.gc, cs.flags)
		pk := pks[(len(cs.key())+len(cs.flags))%len(pks)]
		dir := filepath.Join(w.Mod, cs.spec.OutDir())
		if err := os.MkdirAll(dir, 0o755); err != nil {
			return err
		}
		if cs.env.Pre == "dangling" {
			return os.Symlink(filepath.Join(w.Mod, "nowhere", "at", "all"), filepath.Join(dir, pk))
		}
		var victim string
		for name := range cs.ref.Files {
			if strings.HasPrefix(name, filepath.ToSlash(filepath.Join(cs.spec.OutDir(), pk))+"/") && strings.HasSuffix(name, ".go") && (victim == "" || name < victim) {
				victim = name
			}
		}
		if victim == "" {
			return nil
		}
		return os.MkdirAll(filepath.Join(w.Mod, victim), 0o755)
	case "file":
		// a regular file where the token package directory belongs
		dir := filepath.Join(w.Mod, cs.spec.OutDir())
		if err := os.MkdirAll(dir, 0o755); err != nil {
			return err
		}
		return os.WriteFile(filepath.Join(dir, "token"), []byte("not a directory\n"), 0o644)
	}
	return fmt.Errorf("unknown pre state %q", cs.env.Pre)
}

func (st *c09State) exec(w *engine.Worker, cs *c09Case, faults []simrt.Fault, keep bool) (*engine.Result, error) {
	return st.execFull(w, cs, faults, 0, keep)
}

func (st *c09State) execFull(w *engine.Worker, cs *c09Case, faults []simrt.Fault, fullAfter int64, keep bool) (*engine.Result, error) {
	s := cs.spec
	p := simrt.Plan{Map: simrt.MapPlan{Policy: "identity"}, Clock: 1700000000, Pid: 4242, TickBudget: c09TickBudget, Faults: faults, FullAfter: fullAfter}
	s.Plan = &p
	if !keep {
		if err := st.prepare(w, cs); err != nil {
			return nil, err
		}
	}
	s.Pre = "keep"
	return w.Exec(st.g.Sim, &s, st.timeout)
}

// compile runs `go build ./...` over a generated tree inside a scratch module
// that also holds the action stub.  Results are cached by tree hash.
func (st *c09State) compile(w *engine.Worker, files map[string][]byte) string {
	h := engine.TreeHash(files)
	st.buildMu.Lock()
	if r, ok := st.buildCache[h]; ok {
		st.buildMu.Unlock()
		return r
	}
	st.buildMu.Unlock()
	dir := filepath.Join(w.Dir, "build")
	os.RemoveAll(dir)
	res := func() string {
		if err := os.MkdirAll(dir, 0o755); err != nil {
			return "harness: " + err.Error()
		}
		if err := os.WriteFile(filepath.Join(dir, "go.mod"), []byte("module "+engine.ModuleName+"\n\ngo 1.24\n"), 0o644); err != nil {
			return "harness: " + err.Error()
		}
		for _, p := range []string{"act", "gsim"} {
			if err := scratch.CopyInject(p, filepath.Join(dir, p), engine.ModuleName); err != nil {
				return "harness: " + err.Error()
			}
		}
		for name, data := range files {
			if !strings.HasSuffix(name, ".go") {
				continue
			}
			fp := filepath.Join(dir, name)
			os.MkdirAll(filepath.Dir(fp), 0o755)
			if err := os.WriteFile(fp, data, 0o644); err != nil {
				return "harness: " + err.Error()
			}
		}
		out, err := scratch.Run(dir, scratch.GoEnv(), scratch.GoBin(), "build", "./...")
		if err != nil {
			return strings.ReplaceAll(out, dir, "$BUILD")
		}
		return ""
	}()
	os.RemoveAll(dir)
	st.buildMu.Lock()
	st.buildCache[h] = res
	st.buildMu.Unlock()
	return res
}

func RunC09(c *Ctx) error {
	g, err := sut.BuildGocc(c.Root, true)
	if err != nil {
		return Harnessf("build: %v", err)
	}
	c.Logf("built real and instrumented gocc (%d redirected os imports, %d step sites)", g.Census.Redirected["os"], g.Census.StepSites)
	st := &c09State{c: c, g: g, timeout: 120 * time.Second, buildCache: map[string]string{}}
	st.workers = make([]*engine.Worker, c.Workers)
	for i := range st.workers {
		if st.workers[i], err = engine.NewWorker(c.Root, i); err != nil {
			return Harnessf("%v", err)
		}
	}
	st.cases = goccWorkload(g.Copy, engine.ModuleName, true, awkwardGrammars())
	if c.Replay != "" {
		return c09Replay(c, st)
	}
	r := prng.Sub(c.Seed, "c09", 0)

	// ---- configurations ----
	envs := []c09Env{{}, {Out: "out"}, {Out: "out/deeper"}, {Out: "ABS:gen"}, {Pkg: true}, {Cwd: "a/b"}, {Cwd: "a/b", Out: "sub"}, {Cwd: "a/b", Pkg: true},
		// legal but unclean spellings of the same places
		{Out: "ABS:gen/"}, {Cwd: "a/b", Out: "ABS:./gen"}, {Out: "./out/"}, {Cwd: "a/b", Out: "x/../sub"}, {Out: "ABS:gen//deep"},
		// the grammar file somewhere else than the working directory
		{Via: "symlink"}, {Via: "symlink", Cwd: "a/b", Out: "sub"},
		// -o naming the working directory itself
		{Out: "."}, {Cwd: "a/b", Out: "ABS:"},
		{GDir: "src/grammar"}, {Cwd: "a/b", GDir: ".."}, {GDir: "ABS:src", Out: "out"}, {Cwd: "a/b", GDir: "../../top", Pkg: true}}
	pres := []string{"", "other", "debris", "file", "corrupt", "debris-other", "outfile", "gomod-dir", "otherflags", "other-big", "dangling", "filedir"}
	quickFlags := [][]string{{}, {"-zip"}, {"-v", "-a"}, {"-no_lexer"}, {"-debug_lexer", "-debug_parser"}, {"-zip", "-no_lexer", "-v"}}
	var cfgs []*c09Case
	seen := map[string]bool{}
	add := func(gc *GrammarCase, flags []string, env c09Env) {
		if gc.IR != nil && !gc.HasSyntax && hasFlag(flags, "-no_lexer") {
			// lexer-only grammar with the lexer suppressed: nothing but token/util is asked for; still a legal run
		}
		flags = mergeFlags(gc.NeedFlags, flags)
		if hasFlag(gc.NeedFlags, "-no_lexer") && hasFlag(flags, "-debug_lexer") {
			return
		}
		cs := &c09Case{gc: gc, flags: flags, env: env}
		if seen[cs.key()] {
			return
		}
		seen[cs.key()] = true
		cs.spec = c09Spec(gc, flags, env)
		cfgs = append(cfgs, cs)
	}
	for gi, gc := range st.cases {
		if gc.IR != nil && gc.IR.Big && c.Tier == "quick" {
			continue // seconds per run: thorough only
		}
		for fi, fs := range quickFlags {
			add(gc, fs, envs[(gi+fi)%len(envs)])
		}
		if c.Tier == "thorough" {
			for k := 0; k < 6; k++ {
				fs := flagSubsets()[r.Intn(64)]
				add(gc, fs, envs[r.Intn(len(envs))])
			}
		}
	}
	// complete flag enumeration for a few grammars
	full := []string{"calc", "errdeep", "lexonly"}
	if c.Tier == "quick" {
		full = []string{"calc"}
	}
	for _, id := range full {
		for _, gc := range st.cases {
			if gc.ID != id {
				continue
			}
			for _, fs := range flagSubsets() {
				if c.Tier == "thorough" {
					for ei, env := range envs {
						if id == "calc" || ei%8 == len(fs)%8 {
							add(gc, fs, env) // calc: every flag subset in every environment; the others: an eighth
						}
					}
				} else {
					add(gc, fs, envs[len(fs)%len(envs)])
				}
			}
		}
	}

	// ---- pass A: fault-free reference runs; oracles 2a, 3, 4 ----
	realRes := make([]*engine.Result, len(cfgs))
	err = c.ParallelDo(len(cfgs), func(w, i int) error {
		cs := cfgs[i]
		res, err := st.exec(st.workers[w], cs, nil, false)
		if err != nil {
			return err
		}
		cs.ref = res
		if res.TimedOut || res.Exit == simrt.ExitTickBudget {
			return nil // non-termination is judged below; the real binary would only hang as well
		}
		// fidelity: the real binary in the same place
		s := cs.spec
		rr, err := st.workers[w].Exec(g.Real, &s, st.timeout)
		if err != nil {
			return err
		}
		realRes[i] = rr
		return nil
	})
	if err != nil {
		return Harnessf("reference runs: %v", err)
	}
	evals, distinct := 0, map[string]bool{}
	var ticks, maxTicks int64
	exit0 := 0
	fired := map[string]int{}
	var samples []interface{}
	for i, cs := range cfgs {
		evals++
		ticks += cs.ref.Ticks
		if cs.ref.Ticks > maxTicks {
			maxTicks = cs.ref.Ticks
		}
		if realRes[i] == nil {
			c09Judge(c, st, cs, c09Plan{Spec: cs.spec, Env: cs.env}, cs.ref, nil, false, "fault-free")
			continue
		}
		defer func(r *engine.Result) { r.Files = nil }(realRes[i])
		if d := c11Compare(realRes[i], cs.ref); d != "" {
			return Harnessf("fidelity: instrumented gocc differs from the real binary on %s %v env=%+v: %s", cs.gc.ID, cs.flags, cs.env, d)
		}
		c09Judge(c, st, cs, c09Plan{Spec: cs.spec, Env: cs.env}, cs.ref, nil, false, "fault-free")
		if cs.ref.Exit == 0 {
			exit0++
		}
	}
	c.Logf("%d fault-free configurations (%d exit 0), max ticks %d", len(cfgs), exit0, maxTicks)

	// compile every distinct exit-0 tree of a compilable grammar: all of them with the
	// in-process type checker, a sample of them with `go build` as a cross-check
	type cjob struct {
		cs    *c09Case
		err   string
		build bool
	}
	var cjobs []*cjob
	seenTree := map[string]bool{}
	nBuild := 0
	for _, cs := range cfgs {
		if cs.ref.Exit != 0 || !cs.gc.Compilable || cs.gc.IR == nil {
			continue
		}
		h := engine.TreeHash(cs.ref.GoFiles())
		if seenTree[h] {
			continue
		}
		seenTree[h] = true
		build := c.Tier == "thorough" && len(seenTree)%3 == 0 || len(seenTree)%16 == 1
		if build {
			nBuild++
		}
		cjobs = append(cjobs, &cjob{cs: cs, build: build})
	}
	err = c.ParallelDo(len(cjobs), func(w, i int) error {
		cj := cjobs[i]
		cj.err = typecheckTree(cj.cs.ref.GoFiles())
		if cj.build {
			berr := st.compile(st.workers[w], cj.cs.ref.GoFiles())
			if (berr == "") != (cj.err == "") && !strings.HasPrefix(berr, "harness: ") {
				// the two oracles must agree; if not, the in-process one is not to be trusted
				cj.err = "harness: go/types and go build disagree: types=" + oneLine(cj.err, 200) + " build=" + oneLine(berr, 200)
			}
		}
		return nil
	})
	if err != nil {
		return Harnessf("compile: %v", err)
	}
	compiled := 0
	for _, cj := range cjobs {
		compiled++
		if strings.HasPrefix(cj.err, "harness: ") {
			return Harnessf("compile check: %s", cj.err)
		}
		if cj.err != "" {
			c.Report(&Violation{Class: "uncompilable-output", Key: map[string]string{"grammar": cj.cs.gc.ID},
				Detail: fmt.Sprintf("%s %v env=%+v: gocc exited 0 but its output does not compile: %s", cj.cs.gc.ID, cj.cs.flags, cj.cs.env, oneLine(cj.err, 400)),
				Plan:   c09Plan{Spec: cj.cs.spec, Env: cj.cs.env}})
		}
	}
	c.Logf("%d distinct generated trees type-checked, %d of them also built with go build", compiled, nBuild)

	// ---- pass B: fault enumeration ----
	var jobs []*c09Job
	faultCfgs := 0
	for ci, cs := range cfgs {
		if cs.ref.Exit != 0 || len(cs.ref.Ops) == 0 {
			continue
		}
		if cs.gc.IR != nil && cs.gc.IR.Big {
			continue // seconds per run and nothing new about fault handling
		}
		// quick: a subset of configurations gets the full enumeration
		if c.Tier == "quick" && !(ci%29 == 0 || (cs.gc.ID == "calc" || cs.gc.ID == "lexonly") && len(cs.flags) <= 1) {
			continue
		}
		if c.Tier == "thorough" && !(len(cs.flags) <= len(cs.gc.NeedFlags)+1 && cs.gc.IR != nil && !cs.gc.IR.Big || ci%12 == 0) {
			continue // thorough: every configuration with at most one optional flag, every twelfth of the others
		}
		faultCfgs++
		rr := prng.Sub(c.Seed, "c09/"+cs.key(), ci)
		for _, op := range cs.ref.Ops {
			out := isOutputOp(op.Call)
			class := "input-path"
			if out {
				class = "output-path"
			}
			mk := func(f simrt.Fault, rerun bool) {
				jobs = append(jobs, &c09Job{cs: cs, output: out, plan: c09Plan{Spec: cs.spec, Env: cs.env, Faults: []simrt.Fault{f}, Rerun: rerun, Class: class}})
			}
			// a plain error; every other one is followed by the user simply running gocc again
			mk(simrt.Fault{Op: op.N, Kind: "err", Errno: prng.Pick(rr, errnosFor(op.Call))}, out && (c.Tier == "thorough" || op.N%2 == 0))
			if op.Call == "WriteFile" || op.Call == "Write" {
				mk(simrt.Fault{Op: op.N, Kind: "short", Errno: "ENOSPC", Keep: []int{0, 1, -2, -1}[rr.Intn(4)]}, false)
				mk(simrt.Fault{Op: op.N, Kind: "torn", Keep: []int{0, 1, -2, -1}[rr.Intn(4)]}, true)
			}
			if out {
				mk(simrt.Fault{Op: op.N, Kind: []string{"crash_before", "crash_after"}[rr.Intn(2)]}, true)
			}
		}
		// the disk fills up after n bytes (every later write fails), then space is freed and gocc is run again
		var total int64
		for _, op := range cs.ref.Ops {
			if op.Call == "WriteFile" || op.Call == "Write" {
				total += int64(op.Size)
			}
		}
		if total > 4 {
			for _, fa := range []int64{1, total / 4, total / 2, total - 1, 1 + int64(rr.Intn(int(total)-1)), 1 + int64(rr.Intn(int(total)-1))} {
				jobs = append(jobs, &c09Job{cs: cs, output: true, plan: c09Plan{Spec: cs.spec, Env: cs.env, FullAfter: fa, Rerun: true, Class: "output-path"}})
			}
		}
		// sampled double faults
		nd := 2
		if c.Tier == "thorough" {
			nd = 8
		}
		for k := 0; k < nd && len(cs.ref.Ops) > 2; k++ {
			a := cs.ref.Ops[rr.Intn(len(cs.ref.Ops))]
			b := cs.ref.Ops[rr.Intn(len(cs.ref.Ops))]
			if a.N == b.N {
				continue
			}
			out := isOutputOp(a.Call) && isOutputOp(b.Call)
			class := "input-path"
			if out {
				class = "output-path"
			}
			jobs = append(jobs, &c09Job{cs: cs, output: out, plan: c09Plan{Spec: cs.spec, Env: cs.env, Class: class, Rerun: rr.Bool(), Faults: []simrt.Fault{
				{Op: a.N, Kind: "err", Errno: prng.Pick(rr, errnosFor(a.Call))},
				{Op: b.N, Kind: []string{"err", "short"}[rr.Intn(2)], Errno: prng.Pick(rr, errnosFor(b.Call)), Keep: -2}}}})
		}
	}
	// hostile pre-states (fault-free runs over stale directories)
	for ci, cs := range cfgs {
		if cs.ref.Exit != 0 || cs.gc.IR == nil {
			continue
		}
		if c.Tier == "quick" && ci%11 != 0 {
			continue
		}
		for _, pre := range pres[1:] {
			cs2 := *cs
			cs2.env.Pre = pre
			jobs = append(jobs, &c09Job{cs: &cs2, output: true, plan: c09Plan{Spec: cs.spec, Env: cs2.env, Class: "stale-directory"}})
		}
	}
	c.Logf("%d configurations under fault enumeration, %d faulted runs planned", faultCfgs, len(jobs))
	var statMu sync.Mutex
	exit0UnderFault := 0
	err = c.ParallelDo(len(jobs), func(w, i int) error {
		j := jobs[i]
		res, err := st.execFull(st.workers[w], j.cs, j.plan.Faults, j.plan.FullAfter, false)
		if err != nil {
			return err
		}
		j.res = res
		if j.plan.Rerun {
			r2, err := st.exec(st.workers[w], j.cs, nil, true)
			if err != nil {
				return err
			}
			j.rerun = r2
		}
		// judge at once and let go of the file contents (a thorough run makes hundreds
		// of thousands of runs)
		firedAny := false
		var firedKeys []string
		for _, op := range j.res.Ops {
			if op.Fault != "-" {
				firedKeys = append(firedKeys, strings.SplitN(op.Fault, ":", 2)[0]+"@"+op.Call)
				firedAny = true
			}
		}
		if j.cs.env.Pre != "" {
			firedKeys = append(firedKeys, "stale-dir:"+j.cs.env.Pre)
			firedAny = true
		}
		if j.plan.FullAfter > 0 {
			for _, l := range j.res.LogLines {
				if strings.HasPrefix(l, "disk-full") {
					firedKeys = append(firedKeys, "disk-full")
					firedAny = true
					break
				}
			}
		}
		c09Judge(c, st, j.cs, j.plan, j.res, j.cs.ref, j.output, "faulted")
		if j.rerun != nil {
			c09JudgeRerun(c, st, j.cs, j.plan, j.rerun)
		}
		statMu.Lock()
		evals++
		ticks += j.res.Ticks
		for _, k := range firedKeys {
			fired[k]++
		}
		if firedAny {
			distinct[j.cs.key()+"|"+fmt.Sprint(j.plan.Faults, j.plan.FullAfter)+"|"+j.cs.env.Pre] = true
		}
		if j.res.Exit == 0 {
			exit0UnderFault++
		}
		if j.rerun != nil {
			evals++
			fired["rerun-after-crash"]++
		}
		if len(samples) < 5 && firedAny && len(j.plan.Faults) > 0 && (len(samples) == 0 || j.plan.Faults[0].Kind != "err") {
			samples = append(samples, map[string]interface{}{"grammar": j.cs.gc.ID, "flags": j.cs.flags, "env": j.cs.env, "faults": j.plan.Faults, "exit": j.res.Exit, "ops": len(j.res.Ops), "rerun": j.plan.Rerun})
		}
		statMu.Unlock()
		j.res.Files, j.res.LogLines = nil, nil
		if j.rerun != nil {
			j.rerun.Files, j.rerun.LogLines = nil, nil
		}
		return nil
	})
	if err != nil {
		return Harnessf("faulted runs: %v", err)
	}
	// ---- pass C: damaged grammar files (truncated inside a token, a byte dropped or
	// doubled): the run must still terminate within the tick budget, and exit 0
	// must still mean the basic packages are there.  Damage is placed right after
	// lexically interesting characters, not uniformly. ----
	type mjob struct {
		cs        *c09Case
		what      string
		res       *engine.Result
		sameAsRef bool // exit 0 must come with exactly the undamaged grammar's output
	}
	var mjobs []*mjob
	nMut := 10
	if c.Tier == "thorough" {
		nMut = 60
	}
	for ci, cs := range cfgs {
		if len(cs.flags) != len(cs.gc.NeedFlags) || cs.env != (c09Env{}) && cs.env != envs[ci%len(envs)] {
			continue
		}
		if c.Tier == "quick" && cs.gc.IR == nil && ci%3 != 0 {
			continue
		}
		text := cs.spec.GrammarText
		var spots []int
		for i := 0; i < len(text); i++ {
			if strings.IndexByte("`\"'<>/*\\|{[(:;-", text[i]) >= 0 {
				spots = append(spots, i+1)
			}
		}
		if len(spots) == 0 {
			continue
		}
		rr := prng.Sub(c.Seed, "c09mut/"+cs.key(), ci)
		if ci%4 == 0 {
			for _, odd := range []struct{ text, what string }{{"", "empty"}, {"/* nothing but a comment */\n// and another\n", "only comments"}, {"\n\n \t\n", "only white space"},
				{strings.ReplaceAll(text, "\n", "\r\n"), "with CR LF line ends"}, {text[:len(text)/2] + "\xff\xfe" + text[len(text)/2:], "with invalid UTF-8 in the middle"},
				{text[:len(text)/3] + "\x00" + text[len(text)/3:], "with a NUL byte"}, {"\ufeff" + text, "with a leading byte order mark"}, {text + "\x1a", "with a trailing ^Z"}} {
				cs2 := *cs
				cs2.spec.GrammarText = odd.text
				mjobs = append(mjobs, &mjob{cs: &cs2, what: odd.what})
			}
			// a byte that can belong to no token, BETWEEN two productions: if gocc accepts the
			// file it must have ignored that byte, i.e. generated exactly what it generates
			// for the undamaged file (anything else was generated from a part of the file)
			if cs.gc.IR != nil && !strings.HasPrefix(cs.gc.ID, "awk-") {
				var bounds []int
				for at := 0; ; {
					k := strings.Index(text[at:], ";\n\n")
					if k < 0 {
						break
					}
					at += k + 2
					bounds = append(bounds, at)
				}
				for len(bounds) > 12 {
					bounds = append(bounds[:1], bounds[2:]...) // thin out, keep the ends
					for i := 1; i+1 < len(bounds) && len(bounds) > 12; i += 2 {
						bounds = append(bounds[:i], bounds[i+1:]...)
					}
				}
				for bi, at := range bounds {
					for ji, junk := range []struct{ b, what string }{{"\x00", "NUL"}, {"\xff", "byte 0xFF"}, {"\x1a", "^Z"}} {
						if ji > 0 && bi != len(bounds)/2 {
							continue
						}
						cs2 := *cs
						cs2.spec.GrammarText = text[:at] + junk.b + text[at:]
						mjobs = append(mjobs, &mjob{cs: &cs2, what: fmt.Sprintf("with %s between two productions (byte %d)", junk.what, at), sameAsRef: true})
					}
				}
			}
		}
		for k := 0; k < nMut; k++ {
			pos := spots[rr.Intn(len(spots))]
			var mt, what string
			switch rr.Intn(4) {
			case 0, 1:
				mt, what = text[:pos], fmt.Sprintf("truncated at byte %d", pos)
			case 2:
				mt, what = text[:pos-1]+text[pos:], fmt.Sprintf("byte %d deleted", pos-1)
			default:
				mt, what = text[:pos]+text[pos-1:], fmt.Sprintf("byte %d doubled", pos-1)
			}
			cs2 := *cs
			cs2.spec.GrammarText = mt
			mjobs = append(mjobs, &mjob{cs: &cs2, what: what})
		}
	}
	damagedExit0 := 0
	err = c.ParallelDo(len(mjobs), func(w, i int) error {
		mj := mjobs[i]
		res, err := st.exec(st.workers[w], mj.cs, nil, false)
		if err != nil {
			return err
		}
		key := map[string]string{"grammar": mj.cs.gc.ID}
		plan := c09Plan{Spec: mj.cs.spec, Env: mj.cs.env, Class: "damaged-file"}
		statMu.Lock()
		evals++
		ticks += res.Ticks
		fired["damaged-grammar-file"]++
		distinct[mj.cs.key()+"|"+mj.what] = true
		if res.Exit == 0 {
			damagedExit0++
		}
		statMu.Unlock()
		if res.TimedOut || res.Exit == simrt.ExitTickBudget {
			c.Report(&Violation{Class: "non-termination", Key: key, Size: len(mj.cs.spec.GrammarText),
				Detail: fmt.Sprintf("%s %v with the grammar file %s: gocc did not terminate within %d ticks (ticks so far %d)", mj.cs.gc.ID, mj.cs.flags, mj.what, int64(c09TickBudget), res.Ticks), Plan: plan})
			return nil
		}
		if res.Exit == 0 {
			pk := []string{"token", "util"}
			if !hasFlag(mj.cs.flags, "-no_lexer") {
				pk = append(pk, "lexer")
			}
			if d := c09Complete(res.Files, mj.cs.spec.OutDir(), pk); d != "" {
				c.Report(&Violation{Class: "exit0-incomplete", Key: key, Detail: fmt.Sprintf("%s %v with the grammar file %s: exit status 0 but %s", mj.cs.gc.ID, mj.cs.flags, mj.what, d), Plan: plan})
			} else if mj.sameAsRef && mj.cs.ref != nil && mj.cs.ref.Exit == 0 {
				if d := c09SameAsRef(mj.cs.ref.Files, res.Files); d != "" {
					c.Report(&Violation{Class: "exit0-partial-input", Key: key, Detail: fmt.Sprintf("%s %v with the grammar file %s: exit status 0, yet the output is not what the undamaged file gives (the file was accepted but not generated from as a whole): %s", mj.cs.gc.ID, mj.cs.flags, mj.what, d), Plan: plan})
				}
			}
		}
		return nil
	})
	if err != nil {
		return Harnessf("damaged-file runs: %v", err)
	}
	c.Logf("%d damaged grammar files run (%d still exit 0)", len(mjobs), damagedExit0)
	c.Logf("%d runs judged, %d distinct faulted, %d exited 0 under a fault, %d violations", evals, len(distinct), exit0UnderFault, c.NumViolations())
	cov := map[string]interface{}{
		"evaluations":                evals,
		"distinct_nontrivial":        len(distinct),
		"rule":                       "one evaluation = one instrumented-gocc process run (grammar, flags, cwd/-o/-p, directory pre-state, fault plan) judged by: terminates within the tick budget; exit 0 => every package the configuration calls for exists and parses; under output-path faults and after crash+rerun exit 0 => every .go file equals the fault-free run's; fault-free exit-0 trees compile. non-trivial = a planned fault actually fired (or a stale directory was in place); distinct by (configuration, fault list)",
		"samples":                    samples,
		"exhaustive":                 false,
		"fault_free_configurations":  len(cfgs),
		"fault_free_exit0":           exit0,
		"trees_compiled":             compiled,
		"trees_also_go_built":        nBuild,
		"faulted_configurations":     faultCfgs,
		"fault_kinds_fired":          fired,
		"exit0_under_fault":          exit0UnderFault,
		"ticks_simulated":            ticks,
		"max_ticks_single_run":       maxTicks,
		"tick_budget":                int64(c09TickBudget),
		"grammars":                   len(st.cases),
		"fault_position_enumeration": "every operation index of the reference run of each enumerated configuration, one errno drawn per position, plus short/torn writes and crash+rerun; double faults sampled",
		"components":                 "real code: gocc generator (instrumented scratch copy), Go runtime, OS file system (scratch dir), go build of generated output; simulated: the decision to fail/shorten/crash at each os-level operation, tick clock; stub: action package the generated code imports",
	}
	return c.WriteEvidence("fault_enumeration", cov, []string{
		"faults are injected at the os-package seam of gocc's own code (import redirection); I/O performed by the standard library on gocc's behalf other than through package os is not intercepted (none today)",
		"complete output is defined by what the same binary writes when nothing fails",
		"no lying disk (a write reported successful is durable)",
		"hostile spellings are a fixed workload list, not searched",
	})
}

func c09Judge(c *Ctx, st *c09State, cs *c09Case, plan c09Plan, res *engine.Result, ref *engine.Result, outputFault bool, what string) {
	key := map[string]string{"grammar": cs.gc.ID}
	desc := fmt.Sprintf("%s %v env=%+v faults=%v", cs.gc.ID, cs.flags, cs.env, plan.Faults)
	if plan.FullAfter > 0 {
		desc += fmt.Sprintf(" disk full after %d bytes", plan.FullAfter)
	}
	if res.TimedOut || res.Exit == simrt.ExitTickBudget {
		c.Report(&Violation{Class: "non-termination", Key: key, Detail: desc + fmt.Sprintf(": did not terminate within %d ticks / the wall watchdog (ticks so far %d)", int64(c09TickBudget), res.Ticks), Plan: plan})
		return
	}
	if res.Exit != 0 {
		return // a non-zero exit is always acceptable
	}
	if d := c09Complete(res.Files, cs.spec.OutDir(), expectedPackages(cs.gc, cs.flags)); d != "" {
		c.Report(&Violation{Class: "exit0-incomplete", Key: key, Detail: desc + ": exit status 0 but " + d, Plan: plan})
		return
	}
	if cs.gc.IR != nil && cs.env.Pre == "" {
		if d := c09ImportsResolve(res.Files, cs.spec.OutDir()); d != "" {
			c.Report(&Violation{Class: "import-does-not-resolve", Key: key, Detail: desc + ": exit status 0 but " + d, Plan: plan})
			return
		}
	}
	if ref != nil && outputFault && ref.Exit == 0 {
		if d := c09SameAsRef(ref.Files, res.Files); d != "" {
			c.Report(&Violation{Class: "exit0-incomplete", Key: key, Detail: desc + ": exit status 0 but output is not what the fault-free run writes: " + d, Plan: plan})
			return
		}
	}
	if cs.env.Pre != "" && cs.env.Pre != "file" && cs.env.Pre != "outfile" && cs.env.Pre != "dangling" && cs.env.Pre != "filedir" && cs.gc.IR != nil && cs.gc.Compilable {
		// whatever an earlier run left behind: the packages this configuration calls for must compile
		called := map[string][]byte{}
		for _, pk := range expectedPackages(cs.gc, cs.flags) {
			prefix := filepath.ToSlash(filepath.Join(cs.spec.OutDir(), pk)) + "/"
			for name, data := range res.Files {
				if strings.HasPrefix(name, prefix) && !strings.Contains(name[len(prefix):], "/") && strings.HasSuffix(name, ".go") {
					called[name] = data
				}
			}
		}
		if e := typecheckTree(called); e != "" && !strings.HasPrefix(e, "harness: ") {
			c.Report(&Violation{Class: "uncompilable-output", Key: key, Detail: desc + ": exit status 0 but the packages the configuration calls for do not compile (files of an earlier run left in place?): " + oneLine(e, 300), Plan: plan})
		}
	}
}

func c09JudgeRerun(c *Ctx, st *c09State, cs *c09Case, plan c09Plan, res *engine.Result) {
	key := map[string]string{"grammar": cs.gc.ID}
	desc := fmt.Sprintf("%s %v env=%+v after faults=%v, fault-free rerun in the same directory", cs.gc.ID, cs.flags, cs.env, plan.Faults)
	if res.TimedOut || res.Exit == simrt.ExitTickBudget {
		c.Report(&Violation{Class: "non-termination", Key: key, Detail: desc + ": did not terminate", Plan: plan})
		return
	}
	if cs.ref.Exit == 0 && res.Exit != 0 {
		c.Report(&Violation{Class: "rerun-fails", Key: key, Detail: desc + fmt.Sprintf(": exit status %d (%s)", res.Exit, oneLine(res.Stderr+res.Stdout, 200)), Plan: plan})
		return
	}
	if res.Exit == 0 {
		if d := c09Complete(res.Files, cs.spec.OutDir(), expectedPackages(cs.gc, cs.flags)); d != "" {
			c.Report(&Violation{Class: "exit0-incomplete", Key: key, Detail: desc + ": exit status 0 but " + d, Plan: plan})
			return
		}
		if d := c09SameAsRef(cs.ref.Files, res.Files); d != "" {
			c.Report(&Violation{Class: "exit0-incomplete", Key: key, Detail: desc + ": exit status 0 but " + d, Plan: plan})
		}
	}
}

func c09Replay(c *Ctx, st *c09State) error {
	var v struct {
		Plan  c09Plan `json:"plan"`
		Class string  `json:"class"`
	}
	if err := readJSON(c.Replay, &v); err != nil {
		return Harnessf("replay file: %v", err)
	}
	var gc *GrammarCase
	for _, x := range st.cases {
		if x.ID == v.Plan.Spec.GrammarID {
			gc = x
		}
	}
	if gc == nil {
		gc = &GrammarCase{ID: v.Plan.Spec.GrammarID, Text: v.Plan.Spec.GrammarText, File: v.Plan.Spec.GrammarFile}
	}
	cs := &c09Case{gc: gc, flags: v.Plan.Spec.Flags, env: v.Plan.Env, spec: v.Plan.Spec}
	cs.spec.Plan = nil
	if v.Plan.Class == "damaged-file" {
		w := st.workers[0]
		res, err := st.exec(w, cs, nil, false)
		if err != nil {
			return Harnessf("%v", err)
		}
		if res.TimedOut || res.Exit == simrt.ExitTickBudget {
			c.Report(&Violation{Class: "non-termination", Key: map[string]string{"grammar": gc.ID}, Detail: fmt.Sprintf("did not terminate within the tick budget (ticks %d)", res.Ticks), Plan: v.Plan})
		} else if res.Exit == 0 {
			pk := []string{"token", "util"}
			if !hasFlag(cs.flags, "-no_lexer") {
				pk = append(pk, "lexer")
			}
			if d := c09Complete(res.Files, cs.spec.OutDir(), pk); d != "" {
				c.Report(&Violation{Class: "exit0-incomplete", Key: map[string]string{"grammar": gc.ID}, Detail: d, Plan: v.Plan})
			}
		}
		if c.NumViolations() == 0 {
			c.Logf("replay did not reproduce a violation")
		}
		return nil
	}
	w := st.workers[0]
	base := *cs
	base.env.Pre = ""
	ref, err := st.exec(w, &base, nil, false)
	if err != nil {
		return Harnessf("%v", err)
	}
	cs.ref = ref
	res, err := st.execFull(w, cs, v.Plan.Faults, v.Plan.FullAfter, false)
	if err != nil {
		return Harnessf("%v", err)
	}
	out := v.Plan.Class == "output-path" || v.Plan.Class == "stale-directory"
	c09Judge(c, st, cs, v.Plan, res, ref, out, "replay")
	if v.Plan.Rerun {
		r2, err := st.exec(w, cs, nil, true)
		if err != nil {
			return Harnessf("%v", err)
		}
		c09JudgeRerun(c, st, cs, v.Plan, r2)
	}
	if v.Class == "uncompilable-output" && res.Exit == 0 {
		if e := typecheckTree(res.GoFiles()); e != "" {
			c.Report(&Violation{Class: "uncompilable-output", Key: map[string]string{"grammar": gc.ID}, Detail: oneLine(e, 400), Plan: v.Plan})
		}
	}
	if c.NumViolations() == 0 {
		c.Logf("replay did not reproduce a violation")
	}
	return nil
}

// awkwardGrammars: the fixed list of hostile spellings (workload, not search).
func awkwardGrammars() []*corpus.Grammar { return corpus.Awkward() }
