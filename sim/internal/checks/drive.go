package checks

import (
	"bufio"
	"bytes"
	"context"
	"encoding/json"
	"fmt"
	"os"
	"os/exec"
	"path/filepath"
	"strings"
	"sync/atomic"
	"time"

	"verifsim/inject/harness"
	"verifsim/internal/sut"
)

var batchSeq int64

type batchOut struct {
	Results []harness.JobResult
	Crash   string // non-empty: the driver process died; text of its stderr
	CrashAt int    // index (in jobs) of the job that was running
	RaceLog string // content of the race detector's log, if any
	Wall    time.Duration
}

// runBatch executes jobs in one driver process.
func runBatch(c *Ctx, drv *sut.Driver, jobs []harness.Job, race bool, timeout time.Duration) (*batchOut, error) {
	n := atomic.AddInt64(&batchSeq, 1)
	dir := filepath.Join(c.Root, "jobs")
	os.MkdirAll(dir, 0o755)
	jf := filepath.Join(dir, fmt.Sprintf("b%d.jobs.json", n))
	rf := filepath.Join(dir, fmt.Sprintf("b%d.results.json", n))
	defer os.Remove(jf)
	defer os.Remove(rf)
	data, err := json.Marshal(jobs)
	if err != nil {
		return nil, err
	}
	if err := os.WriteFile(jf, data, 0o644); err != nil {
		return nil, err
	}
	ctx, cancel := context.WithTimeout(context.Background(), timeout)
	defer cancel()
	cmd := exec.CommandContext(ctx, drv.Bin, jf, rf)
	cmd.Dir = dir
	// GOMAXPROCS=1: the simulator runs one task at a time anyway, and per-P caches
	// (sync.Pool) would otherwise hide sharing between tasks that happen to sit on
	// different Ps.
	srcDir := filepath.Join(c.Root, "src")
	os.MkdirAll(srcDir, 0o755)
	env := []string{"PATH=/usr/bin:/bin", "HOME=" + dir, "GOMAXPROCS=1", "VERIF_SRCDIR=" + srcDir}
	for _, j := range jobs {
		if j.Free {
			env[2] = "GOMAXPROCS=4" // observation mode: real parallel goroutines
		}
	}
	if v := os.Getenv("VERIF_DRIVER_GOMAXPROCS"); v != "" {
		env[2] = "GOMAXPROCS=" + v // determinism self-test only
	}
	raceLog := ""
	if race {
		raceLog = filepath.Join(dir, fmt.Sprintf("b%d.race", n))
		env = append(env, "GORACE=log_path="+raceLog+" halt_on_error=0 history_size=2", "VERIF_RACELOG="+raceLog)
	}
	cmd.Env = env
	var se bytes.Buffer
	cmd.Stderr = &se
	t0 := time.Now()
	runErr := cmd.Run()
	out := &batchOut{Wall: time.Since(t0)}
	if f, err := os.Open(rf); err == nil {
		sc := bufio.NewScanner(f)
		sc.Buffer(make([]byte, 1<<20), 1<<28)
		for sc.Scan() {
			var r harness.JobResult
			if err := json.Unmarshal(sc.Bytes(), &r); err != nil {
				break
			}
			out.Results = append(out.Results, r)
		}
		f.Close()
	}
	if race {
		m, _ := filepath.Glob(raceLog + ".*")
		for _, p := range m {
			b, _ := os.ReadFile(p)
			out.RaceLog += string(b)
			os.Remove(p)
		}
	}
	if ctx.Err() == context.DeadlineExceeded {
		return nil, fmt.Errorf("driver %s exceeded the wall watchdog (%v) in job %d", filepath.Base(drv.Bin), timeout, len(out.Results))
	}
	if runErr != nil || len(out.Results) < len(jobs) {
		if ee, ok := runErr.(*exec.ExitError); ok && ee.ExitCode() == 2 && !strings.Contains(se.String(), "goroutine ") {
			return nil, fmt.Errorf("driver %s: %s", filepath.Base(drv.Bin), se.String())
		}
		// exit status 66 = race detector found something (GORACE exitcode default) — results are complete then
		if len(out.Results) < len(jobs) {
			out.Crash = clipStr(se.String(), 2000)
			out.CrashAt = len(out.Results)
		}
	}
	for _, r := range out.Results {
		if r.Harness != "" {
			return nil, fmt.Errorf("driver %s: %s", filepath.Base(drv.Bin), r.Harness)
		}
	}
	return out, nil
}

func clipStr(s string, n int) string {
	if len(s) > n {
		return s[:n] + "..."
	}
	return s
}
