package checks

import (
	"encoding/json"
	"os"

	"verifsim/internal/corpus"
)

func readJSON(path string, v interface{}) error {
	data, err := os.ReadFile(path)
	if err != nil {
		return err
	}
	return json.Unmarshal(data, v)
}

// c11Extra: grammars aimed at the map sites (several unused tokens, many literals).
func c11Extra(c *Ctx) []*corpus.Grammar { return corpus.Awkward() }

// randomGrammars: seeded LL(1) grammars (thorough tiers).
func randomGrammars(seed uint64, n int) []*corpus.Grammar { return corpus.Random(seed, n) }
