package checks

import (
	"fmt"
	"os"
	"sort"
	"strings"
	"time"

	"verifsim/inject/gsim"
	"verifsim/inject/harness"
	"verifsim/internal/corpus"
	"verifsim/internal/prng"
	"verifsim/internal/sut"
)

// C17 — independent instances are safe to use concurrently.  See DESIGN.md section 7.

// perTaskSpelling gives every task its own (equivalent) spelling of the paths of
// file-backed lexers; the Input values are copied, histories share them.
func perTaskSpelling(tasks []harness.TaskSpec) {
	for ti := range tasks {
		ops := append([]harness.Op{}, tasks[ti].Ops...)
		for oi := range ops {
			if ops[oi].In != nil && ops[oi].In.FromFile {
				in := *ops[oi].In
				in.Spelling = ti % 3
				ops[oi].In = &in
			}
		}
		tasks[ti].Ops = ops
	}
}

type c17Replay struct {
	Grammar string      `json:"grammar"`
	Job     harness.Job `json:"job"`
}

var c17Variants = []sut.Variant{sut.AllVariants[0], sut.AllVariants[1], sut.AllVariants[2], sut.AllVariants[3]}

func c17Grammars(tier string) []*corpus.Grammar {
	all := parserGrammars(true, true)
	if tier == "thorough" {
		return all
	}
	want := map[string]bool{"calc": true, "errdeep": true, "usercontext": true, "nullable": true, "deep": true, "lexonly": true, "sr": true, "stmtexpr": true, "nolexer": true, "scripts": true, "keywords": true, "errrec": true}
	var out []*corpus.Grammar
	for _, g := range all {
		if want[g.ID] {
			out = append(out, g)
		}
	}
	return out
}

// taskOps draws a short history for one task.
func (p *inputPool) taskOps(r *prng.R) []harness.Op {
	h := p.history(r)
	n := 1 + r.Intn(4)
	if len(h) > n {
		// keep the final observation
		h = append(h[:n-1:n-1], h[len(h)-1])
	}
	return h
}

func c17Schedule(r *prng.R, ntasks int) gsim.Schedule {
	switch r.Intn(5) {
	case 0, 1:
		return gsim.Schedule{Policy: "uniform", Seed: r.U64()}
	case 2, 3:
		s := gsim.Schedule{Policy: "preempt"}
		d := 1 + r.Intn(3)
		for i := 0; i < d; i++ {
			s.Permille = append(s.Permille, [2]int{r.Intn(1000), r.Intn(ntasks)})
		}
		sort.Slice(s.Permille, func(i, j int) bool { return s.Permille[i][0] < s.Permille[j][0] })
		return s
	default:
		s := gsim.Schedule{Policy: "uniform", Seed: r.U64(), Starve: 1 + r.Intn(ntasks)}
		return s
	}
}

// raceBlocks splits a race detector log into reports.
func raceBlocks(log string) []string {
	var out []string
	for _, b := range strings.Split(log, "==================") {
		if strings.Contains(b, "WARNING: DATA RACE") {
			out = append(out, strings.TrimSpace(b))
		}
	}
	return out
}

// raceInGenerated: at least one frame of the report lies in a generated package.
func raceInGenerated(block string) bool {
	return strings.Contains(block, "/gen/g") || strings.Contains(block, sut.DrvModule+"/gen/")
}

func raceSummary(block string) string {
	var lines []string
	for _, l := range strings.Split(block, "\n") {
		t := strings.TrimSpace(l)
		if strings.HasPrefix(t, "Write at") || strings.HasPrefix(t, "Read at") || strings.HasPrefix(t, "Previous") {
			lines = append(lines, t)
		} else if strings.Contains(t, "/gen/g") && len(lines) < 8 {
			lines = append(lines, t)
		} else if strings.HasPrefix(t, sut.DrvModule+"/gen/") && len(lines) < 8 {
			lines = append(lines, t)
		}
	}
	return strings.Join(lines, " | ")
}

func RunC17(c *Ctx) error {
	g, err := sut.BuildGocc(c.Root, false)
	if err != nil {
		return Harnessf("build: %v", err)
	}
	grammars := c17Grammars(c.Tier)
	variants := c17Variants[:3] // plain, -zip, -debug_lexer -debug_parser
	if c.Tier == "thorough" {
		variants = c17Variants
	}
	if c.Replay != "" {
		var v struct {
			Plan c17Replay `json:"plan"`
		}
		if err := readJSON(c.Replay, &v); err != nil {
			return Harnessf("replay file: %v", err)
		}
		return replayDriverJob(c, g, parserGrammars(true, true), v.Plan.Grammar, v.Plan.Job, true)
	}
	// finer preemption points: a yield before every statement of the generated code
	// (thorough tier, or VERIF_STMT_YIELDS=1)
	sut.StmtYields = c.Tier == "thorough" || os.Getenv("VERIF_STMT_YIELDS") != ""
	drvs, err := sut.BuildDrivers(g, grammars, variants, true, true)
	if err != nil {
		return Harnessf("%v", err)
	}
	for id, msg := range drvs.Broken {
		return Harnessf("WORKLOAD-INVALID: generated code of workload grammar %s does not build: %s", id, oneLine(msg, 600))
	}
	c.Logf("built gocc and %d race-instrumented drivers (%d variants each, %d yield sites)", len(drvs.List), len(variants), len(drvs.SiteNames))
	// Generated code with goroutines or channels of its own cannot be fully owned by
	// the cooperative scheduler: fall back to real parallel goroutines (observation).
	free := len(drvs.Census.GoStmts)+len(drvs.Census.ChanOps)+len(drvs.Census.Selects) > 0
	if free {
		c.Logf("generated code has %d go statements, %d channel operations, %d selects: tasks run as real goroutines (observation mode)", len(drvs.Census.GoStmts), len(drvs.Census.ChanOps), len(drvs.Census.Selects))
	}
	nJobs := 50
	if c.Tier == "thorough" {
		nJobs = 600
	}
	type batch struct {
		drv     *sut.Driver
		jobs    []harness.Job
		out     *batchOut
		isoOf   *batch // this batch is the isolated single-task reference of a task of that cold-start job
		isoTask int
	}
	var batches []*batch
	for _, drv := range drvs.List {
		r := prng.Sub(c.Seed, "c17/"+drv.Grammar.ID, 0)
		pool := newPool(drv.Grammar, r, drv.HasLexer, false)
		var jobs []harness.Job
		for vi, v := range drv.Variants {
			n := nJobs
			if c.Tier == "quick" && vi >= 2 {
				n = nJobs / 3 // the debug variants print a lot: fewer jobs
			}
			for k := 0; k < n; k++ {
				nt := 2 + r.Intn(5)
				job := harness.Job{ID: len(jobs), Kind: "c17", Variant: v.Name, Knob: stackKnobs[r.Intn(len(stackKnobs))]}
				for t := 0; t < nt; t++ {
					job.Tasks = append(job.Tasks, harness.TaskSpec{Ops: pool.taskOps(r.Fork("t"))})
				}
				if k%8 == 5 && hasErrorAlt(drv.Grammar) {
					// an error storm: every task parses inputs with many syntax errors at once
					// (recovery counters, budgets, error registries)
					for t := range job.Tasks {
						var ops []harness.Op
						for q := 0; q < 2; q++ {
							s := prng.Pick(r, pool.valid)
							toks := drv.Grammar.Mutate(r, s.Tokens, 8+r.Intn(10))
							txt, laid := drv.Grammar.Layout(r, toks)
							ops = append(ops, harness.Op{Op: "parse", In: tokensInput(txt, laid, !drv.HasLexer, "bad")})
						}
						job.Tasks[t].Ops = ops
					}
				}
				if k%8 == 3 && drv.HasLexer && len(pool.valid) > 0 {
					// every task also lexes and parses ONE shared (erroneous) input buffer: lexers
					// and error formatting may only read the source they are given
					in := pool.badInput(r, false)
					for t := range job.Tasks {
						cp := *in
						job.Tasks[t].Ops = append([]harness.Op{{Op: "parse", In: &cp}}, job.Tasks[t].Ops...)
					}
				}
				perTaskSpelling(job.Tasks)
				job.Schedule = c17Schedule(r, nt)
				job.Free = free
				jobs = append(jobs, job)
			}
		}
		per := 40
		if c.Tier == "thorough" {
			per = 25
		}
		for i := 0; i < len(jobs); i += per {
			j := i + per
			if j > len(jobs) {
				j = len(jobs)
			}
			batches = append(batches, &batch{drv: drv, jobs: jobs[i:j]})
		}
		// cold starts: the scheduled run is the first use of the generated code in its
		// process (lazily initialised shared state is only ever initialised once per
		// process, so each of these jobs gets a process of its own)
		nCold := 6
		if c.Tier == "thorough" {
			nCold = 60
		}
		for _, v := range drv.Variants {
			for k := 0; k < nCold; k++ {
				nt := 2 + r.Intn(4)
				job := harness.Job{ID: 0, Kind: "c17", Variant: v.Name, Cold: true, Free: free, Knob: stackKnobs[r.Intn(len(stackKnobs))]}
				for t := 0; t < nt; t++ {
					job.Tasks = append(job.Tasks, harness.TaskSpec{Ops: pool.taskOps(r.Fork("t"))})
				}
				if k%2 == 0 && drv.HasLexer && len(pool.valid) > 0 {
					// every task first parses the SAME file through NewLexerFile (each under its
					// own spelling of the path): anything the generated code keeps per file is shared
					s0 := prng.Pick(r, pool.valid)
					for t := range job.Tasks {
						in := toInput(s0, false, "valid")
						in.FromFile = true
						job.Tasks[t].Ops = append([]harness.Op{{Op: "parse", In: in}}, job.Tasks[t].Ops...)
					}
				}
				job.Schedule = gsim.Schedule{Policy: "uniform", Seed: r.U64()}
				if k%3 == 2 {
					// first task runs a little, then the others start
					job.Schedule = gsim.Schedule{Policy: "preempt", Points: [][2]int{{1 + r.Intn(40), 1 % nt}, {60 + r.Intn(200), 0}}}
				}
				perTaskSpelling(job.Tasks)
				cold := &batch{drv: drv, jobs: []harness.Job{job}}
				batches = append(batches, cold)
				// isolated references: every task of a cold-start job also runs all alone in a
				// process of its own; what it observes there is what it "would obtain alone"
				// even if the generated code keeps process-wide state
				if k%2 == 0 {
					for ti := range job.Tasks {
						iso := job
						// same task numbering (task ids show in injected error texts), the others idle
						iso.Tasks = make([]harness.TaskSpec, len(job.Tasks))
						iso.Tasks[ti] = job.Tasks[ti]
						iso.Schedule = gsim.Schedule{Policy: "preempt"}
						b := &batch{drv: drv, jobs: []harness.Job{iso}, isoOf: cold, isoTask: ti}
						batches = append(batches, b)
					}
				}
			}
		}
	}
	err = c.ParallelDo(len(batches), func(w, i int) error {
		b := batches[i]
		out, err := runBatch(c, b.drv, b.jobs, true, 40*time.Minute)
		if err != nil {
			return err
		}
		b.out = out
		return nil
	})
	if err != nil {
		return Harnessf("driver: %v", err)
	}
	evals, runs, steps, switches := 0, 0, 0, 0
	schedules := map[string]bool{}
	switchFunc := map[string]int{}
	raceReports := 0
	var samples []interface{}
	shrunk := map[string]int{}
	for _, b := range batches {
		blocks := raceBlocks(b.out.RaceLog)
		harnessOnly := 0
		for _, bl := range blocks {
			if !raceInGenerated(bl) {
				harnessOnly++
			}
		}
		if harnessOnly > 0 {
			return Harnessf("race detector report with no frame in generated code (harness bug): %s", oneLine(blocks[0], 1500))
		}
		for ri, r := range b.out.Results {
			job := b.jobs[ri]
			evals += r.Evals
			runs++
			steps += r.Steps
			switches += r.Switches
			if r.Switches > 0 {
				schedules[b.drv.Grammar.ID+"|"+job.Variant+"|"+r.TraceHash] = true
			} else if free && len(job.Tasks) > 1 {
				// observation mode: no schedule to hash; distinct by the plan itself
				schedules[fmt.Sprintf("%s|%s|free|%d|%s", b.drv.Grammar.ID, job.Variant, ri, r.Digest)] = true
			}
			for _, s := range r.SwitchAt {
				name := "start"
				if s >= 0 && s < len(drvs.SiteNames) {
					f := strings.Fields(drvs.SiteNames[s])
					name = f[len(f)-1]
				}
				switchFunc[name]++
			}
			if len(samples) < 2 && r.Switches > 3 && len(job.Tasks) <= 3 {
				samples = append(samples, map[string]interface{}{"grammar": b.drv.Grammar.ID, "variant": job.Variant, "tasks": job.Tasks, "schedule": job.Schedule, "steps": r.Steps, "context_switches": r.Switches, "trace_hash": r.TraceHash})
			}
			for _, v := range r.Violations {
				min := job
				if gk := v.Class + "|" + b.drv.Grammar.ID; shrunk[gk] < 1 {
					shrunk[gk]++
					min = c17Shrink(c, b.drv, job, v.Class)
				}
				c.Report(&Violation{Class: v.Class, Key: map[string]string{"grammar": b.drv.Grammar.ID}, Size: c17Size(min),
					Detail: fmt.Sprintf("%s/%s knob=%d %d tasks (%d operations) schedule=%s cold=%v: %s", b.drv.Grammar.ID, min.Variant, min.Knob, len(min.Tasks), c17Size(min), min.Schedule.Policy, min.Cold, v.Detail),
					Plan:   c17Replay{Grammar: b.drv.Grammar.ID, Job: min}})
			}
			if r.Race {
				raceReports++
				sum := ""
				if jb := raceBlocks(r.RaceText); len(jb) > 0 {
					sum = raceSummary(jb[0])
				} else if len(blocks) > 0 {
					sum = raceSummary(blocks[0])
				}
				min := job
				if gk := "data-race|" + b.drv.Grammar.ID; shrunk[gk] < 1 {
					shrunk[gk]++
					min = c17Shrink(c, b.drv, job, "data-race")
				}
				c.Report(&Violation{Class: "data-race", Key: map[string]string{"grammar": b.drv.Grammar.ID}, Size: c17Size(min),
					Detail: fmt.Sprintf("%s/%s %d tasks (%d operations) schedule=%s cold=%v: the race detector reports an unsynchronised access in generated code: %s", b.drv.Grammar.ID, min.Variant, len(min.Tasks), c17Size(min), min.Schedule.Policy, min.Cold, sum),
					Plan:   c17Replay{Grammar: b.drv.Grammar.ID, Job: min}})
			}
		}
		if b.out.Crash != "" {
			job := b.jobs[b.out.CrashAt]
			c.Report(&Violation{Class: "crash", Key: map[string]string{"grammar": b.drv.Grammar.ID},
				Detail: fmt.Sprintf("%s/%s: the process died under the schedule: %s", b.drv.Grammar.ID, job.Variant, oneLine(b.out.Crash, 600)),
				Plan:   c17Replay{Grammar: b.drv.Grammar.ID, Job: job}})
		}
	}
	isoCompared := 0
	for _, b := range batches {
		if b.isoOf == nil || b.out == nil || b.isoOf.out == nil || len(b.out.Results) != 1 || len(b.isoOf.out.Results) != 1 {
			continue
		}
		alone := b.out.Results[0]
		sched := b.isoOf.out.Results[0]
		if b.isoTask >= len(alone.TaskDigest) || b.isoTask >= len(sched.TaskDigest) {
			continue
		}
		isoCompared++
		if alone.TaskDigest[b.isoTask] != sched.TaskDigest[b.isoTask] {
			job := b.isoOf.jobs[0]
			c.Report(&Violation{Class: "differs-from-isolated-process", Key: map[string]string{"grammar": b.drv.Grammar.ID}, Size: c17Size(job),
				Detail: fmt.Sprintf("%s/%s: task %d of %d observes something else under the schedule than the same task observes all alone in a process of its own (process-wide state in the generated code?)", b.drv.Grammar.ID, job.Variant, b.isoTask, len(job.Tasks)),
				Plan:   c17Replay{Grammar: b.drv.Grammar.ID, Job: job}})
		}
	}
	c.Logf("%d scheduled runs, %d task observations compared, %d yields scheduled, %d context switches, %d distinct schedules, race reports %d, %d violations", runs, evals, steps, switches, len(schedules), raceReports, c.NumViolations())
	type kv struct {
		k string
		v int
	}
	var sw []kv
	for k, v := range switchFunc {
		sw = append(sw, kv{k, v})
	}
	sort.Slice(sw, func(i, j int) bool { return sw[i].v > sw[j].v || sw[i].v == sw[j].v && sw[i].k < sw[j].k })
	top := map[string]int{}
	for i, e := range sw {
		if i < 25 {
			top[e.k] = e.v
		}
	}
	cov := map[string]interface{}{
		"evaluations":                          runs,
		"distinct_nontrivial":                  len(schedules),
		"rule":                                 "one evaluation = one scheduled run of 2-6 tasks (each with its own lexer, parser, Context and inputs) under one seeded schedule, judged by: every task observes exactly what it observes alone (before and after), the race detector reports nothing, action arguments and $Context belong to the calling task; non-trivial = at least one context switch between tasks happened; distinct by (grammar, variant, hash of the executed task-id sequence)",
		"samples":                              samples,
		"task_observations_compared":           evals,
		"yields_scheduled":                     steps,
		"context_switches":                     switches,
		"switches_by_function_of_parked_task":  top,
		"functions_with_a_switch_inside":       len(switchFunc),
		"race_reports":                         raceReports,
		"tasks_compared_with_isolated_process": isoCompared,
		"grammars":                             len(grammars),
		"variants":                             len(variants),
		"observation_mode_real_goroutines":     free,
		"census_generated_code":                map[string]interface{}{"go_statements": drvs.Census.GoStmts, "channel_ops": drvs.Census.ChanOps, "selects": drvs.Census.Selects, "sync_uses": drvs.Census.SyncUses},
		"schedule_policies":                    "uniform choice at every yield; run-to-completion with 1-3 preemption points (PCT-style); uniform with one starved task",
		"fault_kinds_fired":                    map[string]int{"preemption": switches},
		"components":                           "real code: generated lexer/parser/errors/token built with -race (yield points at every function entry and loop head), Go runtime, race detector; replaced: goroutine scheduler (seeded cooperative; hand-offs hidden from the detector); stub: action callbacks, scanner for token-list inputs",
	}
	return c.WriteEvidence("exploration", cov, []string{
		"the race detector reports exactly conflicting accesses without happens-before among the accesses each run performs; hand-offs of the serialising scheduler are hidden from it (runtime.RaceDisable), synchronisation inside generated code stays visible",
		"schedules are sampled; preemption happens only at inserted yield points (function entries and loop heads of generated code)",
		"input buffers are not shared between tasks",
	})
}

func c17Size(j harness.Job) int {
	n := 0
	for _, t := range j.Tasks {
		n += len(t.Ops)
	}
	return n
}

// c17Shrink looks for a smaller plan that still shows a violation of the same
// class: the plain sequential schedule (a race report does not need an unlucky
// interleaving), fewer tasks, fewer operations per task.  Every candidate runs
// in a process of its own (cold-start plans depend on that).
func c17Shrink(c *Ctx, drv *sut.Driver, job harness.Job, class string) harness.Job {
	fails := func(j harness.Job) bool {
		j.ID = 0
		out, err := runBatch(c, drv, []harness.Job{j}, true, 5*time.Minute)
		if err != nil || out.Crash != "" || len(out.Results) != 1 {
			return false
		}
		r := out.Results[0]
		if class == "data-race" {
			return r.Race
		}
		for _, v := range r.Violations {
			if v.Class == class {
				return true
			}
		}
		return false
	}
	cur := job
	if cur.Schedule.Policy != "preempt" || len(cur.Schedule.Points)+len(cur.Schedule.Permille) > 0 {
		cand := cur
		cand.Schedule = gsim.Schedule{Policy: "preempt"}
		if fails(cand) {
			cur = cand
		}
	}
	for round := 0; round < 12; round++ {
		progress := false
		for i := 0; len(cur.Tasks) > 2 && i < len(cur.Tasks); i++ {
			cand := cur
			cand.Tasks = append(append([]harness.TaskSpec{}, cur.Tasks[:i]...), cur.Tasks[i+1:]...)
			if cand.Schedule.Starve > len(cand.Tasks) {
				cand.Schedule.Starve = 0
			}
			if fails(cand) {
				cur = cand
				progress = true
				break
			}
		}
		if progress {
			continue
		}
		for ti := range cur.Tasks {
			for oi := range cur.Tasks[ti].Ops {
				if len(cur.Tasks[ti].Ops) <= 1 {
					break
				}
				cand := cur
				cand.Tasks = append([]harness.TaskSpec{}, cur.Tasks...)
				ops := append(append([]harness.Op{}, cur.Tasks[ti].Ops[:oi]...), cur.Tasks[ti].Ops[oi+1:]...)
				cand.Tasks[ti] = harness.TaskSpec{Ops: ops}
				if fails(cand) {
					cur = cand
					progress = true
					break
				}
			}
			if progress {
				break
			}
		}
		if !progress {
			break
		}
	}
	return cur
}
