package checks

import (
	"os"
	"path/filepath"
	"sort"
	"strings"

	"verifsim/internal/corpus"
	"verifsim/internal/engine"
)

// GrammarCase is one grammar of the gocc-level workload (C09, C11).
type GrammarCase struct {
	ID          string
	Text        string
	File        string // file name given to gocc
	NeedFlags   []string
	IR          *corpus.Grammar // nil for repository grammars
	Compilable  bool            // header and actions are valid Go inside the scratch module
	HasSyntax   bool
	SyntaxKnown bool // HasSyntax is reliable although IR is nil (markdown variants of IR grammars)
}

// goccWorkload assembles the grammars: the fixed corpus rendered for package
// path pkg, plus the repository's own .bnf/.md grammars read from the scratch copy.
func goccWorkload(copyDir string, pkg string, withRepo bool, extra []*corpus.Grammar) []*GrammarCase {
	var out []*GrammarCase
	for _, g := range append(corpus.Fixed(), extra...) {
		if g.Heavy {
			continue // a parser-driver workload (C03); the gocc-level checks have their own big grammar
		}
		out = append(out, &GrammarCase{ID: g.ID, Text: g.Render(pkg, engine.ModuleName+"/act"), File: "g.bnf", NeedFlags: g.Flags,
			IR: g, Compilable: !g.NoCompile, HasSyntax: g.HasSyntax()})
	}
	// the same grammars inside a markdown file (code fences, prose around and between them)
	for _, g := range append(corpus.Fixed(), extra...) {
		switch g.ID {
		case "calc", "errdeep", "lexonly", "awk-quote", "nolexer":
		default:
			continue
		}
		text := g.Render(pkg, engine.ModuleName+"/act")
		cut := strings.Index(text[len(text)/3:], "\n\n")
		if cut < 0 {
			continue
		}
		cut += len(text) / 3
		long := ""
		if g.ID == "calc" || g.ID == "errdeep" {
			// a very long line in the prose (an embedded image, a minified blob)
			long = "![img](data:image/png;base64," + strings.Repeat("iVBORw0KGgoAAAANSUhEUgAA", 3500) + ")\n\n"
		}
		md := "# Grammar " + g.ID + "\n\nSome prose with `inline code` and a | table | row |\n\n```\n" + text[:cut] + "\n```\n\n" + long + "More prose: A : b ; << not code >>\n\n```\n" + text[cut:] + "\n```\n\ntrailing words\n"
		out = append(out, &GrammarCase{ID: g.ID + ".md", Text: md, File: "g.md", NeedFlags: g.Flags, IR: nil, HasSyntax: g.HasSyntax(), SyntaxKnown: true})
	}
	if !withRepo {
		return out
	}
	var files []string
	for _, pat := range []string{"example/*/*.bnf", "example/*/*.md", "spec/*.bnf", "internal/test/*/*.bnf", "internal/test/*/*/*.bnf"} {
		m, _ := filepath.Glob(filepath.Join(copyDir, pat))
		files = append(files, m...)
	}
	sort.Strings(files)
	for _, f := range files {
		if strings.HasSuffix(f, "README.md") && !strings.Contains(f, "ctx") {
			// only markdown files that carry a grammar are useful; gocc decides by suffix
		}
		data, err := os.ReadFile(f)
		if err != nil || len(data) == 0 {
			continue
		}
		if strings.HasSuffix(f, ".md") && !strings.Contains(string(data), "```") {
			continue
		}
		rel, _ := filepath.Rel(copyDir, f)
		name := "g.bnf"
		if strings.HasSuffix(f, ".md") {
			name = "g.md"
		}
		out = append(out, &GrammarCase{ID: "repo:" + filepath.ToSlash(rel), Text: string(data), File: name, HasSyntax: true})
	}
	return out
}
