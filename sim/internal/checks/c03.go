package checks

import (
	"fmt"
	"sort"
	"strings"
	"time"

	"verifsim/inject/harness"
	"verifsim/internal/corpus"
	"verifsim/internal/prng"
	"verifsim/internal/sut"
)

// C03 — actions are applied bottom-up, left to right; an action error stops
// the parse.  See DESIGN.md section 3.

type c03Replay struct {
	Grammar string      `json:"grammar"`
	Job     harness.Job `json:"job"`
	Text    string      `json:"grammar_text"`
}

func toInput(s *corpus.Sentence, useTokens bool, label string) *harness.Input {
	in := &harness.Input{Text: s.Text, Label: label, UseTokens: useTokens}
	if useTokens {
		for _, t := range s.Tokens {
			in.Tokens = append(in.Tokens, harness.TokSpec{Name: t.Name, Lit: t.Lit, Off: t.Offset})
		}
	}
	return in
}

func tokensInput(text string, toks []corpus.Token, useTokens bool, label string) *harness.Input {
	in := &harness.Input{Text: text, Label: label, UseTokens: useTokens}
	if useTokens {
		for _, t := range toks {
			in.Tokens = append(in.Tokens, harness.TokSpec{Name: t.Name, Lit: t.Lit, Off: t.Offset})
		}
	}
	return in
}

var stackKnobs = []int{0, 1, 2, 7}

func parserGrammars(includeAmbiguous, includeLexOnly bool) []*corpus.Grammar {
	var out []*corpus.Grammar
	for _, g := range corpus.Fixed() {
		if g.GoccOnly || g.Heavy || !g.HasSyntax() && !includeLexOnly {
			continue
		}
		if g.Ambiguous && !includeAmbiguous {
			continue
		}
		out = append(out, g)
	}
	return out
}

func hasErrorAlt(g *corpus.Grammar) bool {
	for _, a := range g.Alts() {
		if a.Error {
			return true
		}
	}
	return false
}

func RunC03(c *Ctx) error {
	g, err := sut.BuildGocc(c.Root, false)
	if err != nil {
		return Harnessf("build: %v", err)
	}
	grammars := parserGrammars(false, false)
	grammars = append(grammars, corpus.ByID(corpus.Fixed(), "manyprods")) // size limits of table entries
	if c.Tier == "thorough" {
		grammars = append(grammars, randomGrammars(c.Seed, 24)...)
	}
	variants := sut.AllVariants[:2]
	if c.Tier == "thorough" {
		variants = sut.AllVariants
	}
	if c.Replay != "" {
		return c03Replay1(c, g, grammars)
	}
	drvs, err := sut.BuildDrivers(g, grammars, variants, false, true)
	if err != nil {
		return Harnessf("%v", err)
	}
	for id, msg := range drvs.Broken {
		// productionstable.go holds exactly the $-rewritten action expressions and the
		// default actions: a compile error there is C03's mechanism failing.  Anything
		// else that does not build is not C03's business: harness trouble (exit 2).
		if !strings.Contains(msg, "/parser/productionstable.go:") {
			return Harnessf("WORKLOAD-INVALID: generated code of workload grammar %s does not build: %s", id, oneLine(msg, 600))
		}
		c.Report(&Violation{Class: "action-code-does-not-compile", Key: map[string]string{"grammar": id},
			Detail: fmt.Sprintf("the action code gocc emitted for workload grammar %s (valid Go actions) does not compile: %s", id, oneLine(msg, 600)),
			Plan:   c03Replay{Grammar: id}})
	}
	c.Logf("built gocc and %d drivers (%d variants each, %d yield sites, knob found=%v)", len(drvs.List), len(variants), len(drvs.SiteNames), drvs.Census.KnobFound)

	nSent := 12
	maxFaults := 64
	if c.Tier == "thorough" {
		nSent = 120
	}
	type batch struct {
		drv  *sut.Driver
		jobs []harness.Job
		out  *batchOut
	}
	var batches []*batch
	for _, drv := range drvs.List {
		gr := drv.Grammar
		r := prng.Sub(c.Seed, "c03/"+gr.ID, 0)
		var jobs []harness.Job
		for _, v := range drv.Variants {
			ns := nSent
			if gr.Heavy {
				ns = 5 * nSent // hundreds of alternatives: many long sentences, so that every one of them is used
			}
			for si := 0; si < ns; si++ {
				budget := 2 + r.Intn(9)
				if si%6 == 5 || gr.Heavy {
					budget = 12 + r.Intn(30) // deep
				}
				s := gr.Derive(r.Fork("s"), budget)
				useTok := !drv.HasLexer || r.Chance(1, 5)
				job := harness.Job{ID: len(jobs), Kind: "c03", Variant: v.Name, Knob: stackKnobs[r.Intn(len(stackKnobs))], Reuse: si%2 == 1,
					In: toInput(s, useTok, "valid"), ExpectLog: s.Log, ExpectResult: s.Result}
				if si%5 == 3 {
					job.CtxSwap = 1 + r.Intn(3) // actions replace the parser's Context while Parse runs
				}
				job.MutateToks = si%7 == 2 // actions modify the tokens they are given
				job.TokMethods = si%3 == 0 // actions call the tokens' convenience methods
				if si%6 == 4 && len(s.Log) > 0 {
					// an action runs a helper parser of the same package over another (small) sentence
					inner := gr.Derive(r.Fork("nest"), 2+r.Intn(3))
					job.NestAt = 1 + r.Intn(len(s.Log))
					job.NestIn = toInput(inner, useTok, "valid")
					job.NestExpect = inner.Result
				}
				n := len(s.Log)
				if n <= maxFaults {
					for k := 1; k <= n; k++ {
						job.FaultCalls = append(job.FaultCalls, k)
					}
				} else {
					seen := map[int]bool{1: true, n: true}
					job.FaultCalls = []int{1, n}
					for len(job.FaultCalls) < maxFaults {
						k := 1 + r.Intn(n)
						if !seen[k] {
							seen[k] = true
							job.FaultCalls = append(job.FaultCalls, k)
						}
					}
					sort.Ints(job.FaultCalls)
				}
				job.FaultKinds = []string{"error"}
				if si%4 == 0 {
					job.FaultKinds = []string{"error", "panic"}
				}
				jobs = append(jobs, job)
			}
			// inputs that are not sentences: where error recovery makes Parse succeed anyway,
			// terminal attributes must still be the scanner's own token objects
			if hasErrorAlt(gr) {
				for k := 0; k < 3*nSent+4; k++ {
					s := gr.Derive(r.Fork("rs"), 2+r.Intn(8))
					toks := gr.Mutate(r, s.Tokens, 1+r.Intn(4))
					txt, laid := gr.Layout(r, toks)
					useTok := !drv.HasLexer || r.Chance(1, 5)
					jobs = append(jobs, harness.Job{ID: len(jobs), Kind: "c03", Variant: v.Name, Knob: stackKnobs[r.Intn(len(stackKnobs))], NoExpect: true, In: tokensInput(txt, laid, useTok, "bad")})
				}
			}
		}
		// split into batches of ~40 jobs so that all cores are used
		for i := 0; i < len(jobs); i += 40 {
			j := i + 40
			if j > len(jobs) {
				j = len(jobs)
			}
			batches = append(batches, &batch{drv: drv, jobs: jobs[i:j]})
		}
	}
	err = c.ParallelDo(len(batches), func(w, i int) error {
		b := batches[i]
		out, err := runBatch(c, b.drv, b.jobs, false, 10*time.Minute)
		if err != nil {
			return err
		}
		b.out = out
		return nil
	})
	if err != nil {
		return Harnessf("driver: %v", err)
	}
	evals, sentences := 0, 0
	distinct := map[string]bool{}
	fired := map[string]int{}
	var samples []interface{}
	for _, b := range batches {
		for ri, r := range b.out.Results {
			job := b.jobs[ri]
			evals += r.Evals
			sentences++
			for k, v := range r.Stats {
				if strings.HasPrefix(k, "fault-") || strings.HasPrefix(k, "recovered-") {
					fired[k] += v
				}
			}
			if r.Evals > 1 {
				distinct[b.drv.Grammar.ID+"|"+job.Variant+"|"+job.In.Text+"|"+fmt.Sprint(job.Knob)] = true
			}
			if len(samples) < 3 && r.Stats["actions"] >= 3 && r.Stats["actions"] <= 8 {
				samples = append(samples, map[string]interface{}{"grammar": b.drv.Grammar.ID, "variant": job.Variant, "stack_knob": job.Knob, "text": job.In.Text, "expected_action_log": job.ExpectLog, "fault_calls_enumerated": job.FaultCalls, "fault_kinds": job.FaultKinds})
			}
			for _, v := range r.Violations {
				jj := job
				jj.FaultCalls = []int{v.At}
				if v.At == 0 {
					jj.FaultCalls = nil
				}
				c.Report(&Violation{Class: v.Class, Key: map[string]string{"grammar": b.drv.Grammar.ID},
					Detail: fmt.Sprintf("%s/%s knob=%d input=%q: %s", b.drv.Grammar.ID, job.Variant, job.Knob, clipStr(job.In.Text, 120), v.Detail),
					Plan:   c03Replay{Grammar: b.drv.Grammar.ID, Job: jj}})
			}
		}
		if b.out.Crash != "" {
			job := b.jobs[b.out.CrashAt]
			c.Report(&Violation{Class: "crash", Key: map[string]string{"grammar": b.drv.Grammar.ID},
				Detail: fmt.Sprintf("%s/%s: the process died while parsing %q: %s", b.drv.Grammar.ID, job.Variant, clipStr(job.In.Text, 120), oneLine(b.out.Crash, 400)),
				Plan:   c03Replay{Grammar: b.drv.Grammar.ID, Job: job}})
		}
	}
	c.Logf("%d sentences, %d parses judged (%d distinct sentence x variant x knob with faults), faults fired %v, %d violations", sentences, evals, len(distinct), fired, c.NumViolations())
	cov := map[string]interface{}{
		"evaluations":                evals,
		"distinct_nontrivial":        len(distinct),
		"rule":                       "one evaluation = one Parse call judged (fault-free against the post-order evaluation of the sentence's derivation tree; faulted against: non-nil error carrying the injected value, exactly k calls, same first k-1 calls). non-trivial = a sentence with at least one action call for which at least one fault position was executed; distinct by (grammar, variant, stack knob, sentence text)",
		"samples":                    samples,
		"sentences":                  sentences,
		"grammars":                   len(grammars),
		"variants":                   len(variants),
		"fault_kinds_fired":          fired,
		"fault_position_enumeration": fmt.Sprintf("every action-call index 1..n for sentences with n <= %d calls, else %d seeded indices including 1 and n", maxFaults, maxFaults),
		"stack_knob_values":          stackKnobs,
		"components":                 "real code: generated lexer/parser/errors/token (from the real gocc built from the working tree; yield- and knob-instrumented), Go runtime; stub: action callbacks (act.N), scanner for token-list inputs",
	}
	return c.WriteEvidence("fault_enumeration", cov, []string{
		"expected results come from the harness's own derivation and evaluator, never from gocc",
		"grammars and sentences are sampled (fixed corpus; thorough adds seeded LL(1) grammars); fault positions are enumerated",
		"$-rewriting, default actions and reduction order are pure functions of grammar and sentence: they are exercised on the workload, not searched",
	})
}

func c03Replay1(c *Ctx, g *sut.Gocc, grammars []*corpus.Grammar) error {
	var v struct {
		Plan c03Replay `json:"plan"`
	}
	if err := readJSON(c.Replay, &v); err != nil {
		return Harnessf("replay file: %v", err)
	}
	return replayDriverJob(c, g, grammars, v.Plan.Grammar, v.Plan.Job, false)
}

// replayDriverJob rebuilds the driver of one grammar and runs one job.
func replayDriverJob(c *Ctx, g *sut.Gocc, grammars []*corpus.Grammar, id string, job harness.Job, race bool) error {
	var gr *corpus.Grammar
	for _, x := range grammars {
		if x.ID == id {
			gr = x
		}
	}
	if gr == nil && strings.HasPrefix(id, "rnd") {
		for _, x := range randomGrammars(c.Seed, 64) {
			if x.ID == id {
				gr = x
			}
		}
	}
	if gr == nil {
		return Harnessf("replay: unknown grammar %s", id)
	}
	drvs, err := sut.BuildDrivers(g, []*corpus.Grammar{gr}, sut.AllVariants, race, true)
	if err != nil {
		return Harnessf("%v", err)
	}
	for gid, msg := range drvs.Broken {
		if c.Prop == "C03" && strings.Contains(msg, "/parser/productionstable.go:") {
			c.Report(&Violation{Class: "action-code-does-not-compile", Key: map[string]string{"grammar": gid}, Detail: oneLine(msg, 600), Plan: map[string]interface{}{"grammar": gid}})
			return nil
		}
		return Harnessf("WORKLOAD-INVALID: generated code of %s does not build: %s", gid, oneLine(msg, 600))
	}
	out, err := runBatch(c, drvs.List[0], []harness.Job{job}, race, 10*time.Minute)
	if err != nil {
		return Harnessf("%v", err)
	}
	if out.Crash != "" {
		c.Report(&Violation{Class: "crash", Key: map[string]string{"grammar": id}, Detail: oneLine(out.Crash, 400), Plan: map[string]interface{}{"grammar": id, "job": job}})
	}
	for _, r := range out.Results {
		for _, v := range r.Violations {
			c.Report(&Violation{Class: v.Class, Key: map[string]string{"grammar": id}, Detail: v.Detail, Plan: map[string]interface{}{"grammar": id, "job": job}})
		}
		if r.Race || out.RaceLog != "" {
			c.Report(&Violation{Class: "data-race", Key: map[string]string{"grammar": id}, Detail: oneLine(out.RaceLog, 600), Plan: map[string]interface{}{"grammar": id, "job": job}})
		}
	}
	if c.NumViolations() == 0 {
		c.Logf("replay did not reproduce a violation")
	}
	return nil
}
