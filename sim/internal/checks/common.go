// Package checks holds one file per claimed property plus the shared
// machinery: context, worker pool, evidence, replay files, known findings.
package checks

import (
	"encoding/json"
	"fmt"
	"os"
	"path/filepath"
	"runtime"
	"sort"
	"strconv"
	"strings"
	"sync"
	"time"

	"verifsim/internal/scratch"
)

const VerifDir = "/verif"

// Exit codes of the interface.
const (
	ExitOK        = 0
	ExitViolation = 1
	ExitHarness   = 2
)

type Ctx struct {
	Prop    string
	Tier    string // quick | thorough
	Seed    uint64
	Root    string // scratch root (removed on exit)
	Start   time.Time
	Replay  string // replay file path, "" for a normal run
	Workers int
	Known   []Finding
	KeepTmp bool

	mu         sync.Mutex
	violations []*Violation
	knownHits  map[string]bool
}

type Finding struct {
	Property string            `json:"property"`
	Status   string            `json:"status"` // open | fixed
	Commit   string            `json:"commit,omitempty"`
	Class    string            `json:"class"`
	Match    map[string]string `json:"match,omitempty"`
	What     string            `json:"what"`
}

// Violation is what a check reports.  Key fields are used to match known findings.
type Violation struct {
	Property string            `json:"property"`
	Class    string            `json:"class"`
	Key      map[string]string `json:"key,omitempty"` // e.g. grammar id
	Detail   string            `json:"detail"`
	Expected string            `json:"expected,omitempty"`
	Observed string            `json:"observed,omitempty"`
	Plan     interface{}       `json:"plan"`
	Seed     uint64            `json:"seed"`
	Harness  string            `json:"harness,omitempty"`
	Size     int               `json:"-"` // size of the plan (smaller is reported first within a group)
	path     string
}

func NewCtx(prop, tier string) (*Ctx, error) {
	c := &Ctx{Prop: prop, Tier: tier, Start: time.Now(), knownHits: map[string]bool{}}
	// go/packages looks `go` up through this process's PATH: pin the toolchain.
	for _, kv := range scratch.GoEnv() {
		if k, v, ok := strings.Cut(kv, "="); ok && (strings.HasPrefix(k, "GO") || k == "PATH") {
			os.Setenv(k, v)
		}
	}
	c.Seed = 1
	if s := os.Getenv("VERIF_SEED"); s != "" {
		v, err := strconv.ParseUint(s, 10, 64)
		if err != nil {
			iv, err2 := strconv.ParseInt(s, 10, 64)
			if err2 != nil {
				return nil, fmt.Errorf("VERIF_SEED=%q is not an integer", s)
			}
			v = uint64(iv)
		}
		c.Seed = v
	}
	c.Workers = runtime.NumCPU()
	if s := os.Getenv("VERIF_WORKERS"); s != "" {
		if n, err := strconv.Atoi(s); err == nil && n > 0 {
			c.Workers = n
		}
	}
	c.KeepTmp = os.Getenv("VERIF_KEEP") != ""
	root, err := scratch.NewRoot()
	if err != nil {
		return nil, err
	}
	c.Root = root
	data, err := os.ReadFile(filepath.Join(VerifDir, "known_findings.json"))
	if err == nil {
		if err := json.Unmarshal(data, &c.Known); err != nil {
			return nil, fmt.Errorf("known_findings.json: %w", err)
		}
	}
	return c, nil
}

func (c *Ctx) Cleanup() {
	if c.Root != "" && !c.KeepTmp {
		os.RemoveAll(c.Root)
	}
}

func (c *Ctx) Logf(format string, args ...interface{}) {
	fmt.Printf("[%s %s %6.1fs] %s\n", c.Prop, c.Tier, time.Since(c.Start).Seconds(), fmt.Sprintf(format, args...))
}

// known reports whether v is a listed open finding.
func (c *Ctx) known(v *Violation) *Finding {
	for i := range c.Known {
		f := &c.Known[i]
		if f.Status != "open" || f.Property != v.Property || f.Class != v.Class {
			continue
		}
		ok := true
		for k, want := range f.Match {
			if v.Key[k] != want {
				ok = false
			}
		}
		if ok {
			return f
		}
	}
	return nil
}

// Report records a violation (or prints KNOWN-FINDING for a listed one).
// It is safe for concurrent use; output order is fixed by Finish.
func (c *Ctx) Report(v *Violation) {
	v.Property = c.Prop
	v.Seed = c.Seed
	c.mu.Lock()
	defer c.mu.Unlock()
	if f := c.known(v); f != nil {
		id := f.Class + "|" + fmt.Sprint(f.Match)
		if !c.knownHits[id] {
			c.knownHits[id] = true
		}
		return
	}
	c.violations = append(c.violations, v)
}

func (c *Ctx) NumViolations() int {
	c.mu.Lock()
	defer c.mu.Unlock()
	return len(c.violations)
}

// Finish prints KNOWN-FINDING / VIOLATION lines, writes replay files, and
// returns the exit code.
func (c *Ctx) Finish() int {
	c.mu.Lock()
	defer c.mu.Unlock()
	var hits []string
	for id := range c.knownHits {
		hits = append(hits, id)
	}
	sort.Strings(hits)
	for i := range c.Known {
		f := &c.Known[i]
		id := f.Class + "|" + fmt.Sprint(f.Match)
		if f.Status == "open" && f.Property == c.Prop && c.knownHits[id] {
			fmt.Printf("KNOWN-FINDING: property=%s class=%s %s -- %s\n", c.Prop, f.Class, matchStr(f.Match), f.What)
		}
	}
	if len(c.violations) == 0 {
		return ExitOK
	}
	sort.SliceStable(c.violations, func(i, j int) bool {
		a, b := c.violations[i], c.violations[j]
		if a.Class != b.Class {
			return a.Class < b.Class
		}
		return a.Detail < b.Detail
	})
	dir := filepath.Join(VerifDir, "replays")
	if d := os.Getenv("VERIF_REPLAY_DIR"); d != "" {
		dir = d
	}
	os.MkdirAll(dir, 0o755)
	// group by (class, key): one replay file per group, the first (smallest detail) of each
	type group struct {
		first *Violation
		n     int
	}
	groups := map[string]*group{}
	var order []string
	for _, v := range c.violations {
		id := v.Class + " " + matchStr(v.Key)
		if g, ok := groups[id]; ok {
			g.n++
			if v.Size > 0 && (g.first.Size == 0 || v.Size < g.first.Size) {
				g.first = v
			}
			continue
		}
		groups[id] = &group{first: v, n: 1}
		order = append(order, id)
	}
	max := 12
	for i, id := range order {
		g := groups[id]
		v := g.first
		if i >= max {
			fmt.Printf("... %d further violation groups not written\n", len(order)-max)
			break
		}
		if c.Replay != "" {
			v.path = c.Replay
		} else {
			v.path = filepath.Join(dir, fmt.Sprintf("%s-%d-%d.json", c.Prop, c.Seed, i+1))
			data, _ := json.MarshalIndent(v, "", " ")
			if err := os.WriteFile(v.path, data, 0o644); err != nil {
				fmt.Println("cannot write replay file:", err)
				return ExitHarness
			}
		}
		fmt.Printf("violation class=%s %s (%d occurrences): %s\n", v.Class, matchStr(v.Key), g.n, oneLine(v.Detail, 700))
		fmt.Printf("VIOLATION property=%s replay=%s\n", c.Prop, v.path)
	}
	return ExitViolation
}

func matchStr(m map[string]string) string {
	var ks []string
	for k := range m {
		ks = append(ks, k)
	}
	sort.Strings(ks)
	var parts []string
	for _, k := range ks {
		parts = append(parts, k+"="+m[k])
	}
	return strings.Join(parts, " ")
}

func oneLine(s string, n int) string {
	s = strings.ReplaceAll(s, "\n", " | ")
	if len(s) > n {
		s = s[:n] + "..."
	}
	return s
}

// Harness aborts with exit 2: build trouble, fidelity failure, workload invalid.
type HarnessError struct{ Msg string }

func (e *HarnessError) Error() string { return e.Msg }

func Harnessf(format string, args ...interface{}) error {
	return &HarnessError{fmt.Sprintf(format, args...)}
}

// ---- evidence ----

type Evidence struct {
	PropertyID  string                 `json:"property_id"`
	Tier        string                 `json:"tier"`
	Seed        int64                  `json:"seed"`
	Level       string                 `json:"level"`
	Coverage    map[string]interface{} `json:"coverage"`
	Assumptions []string               `json:"assumptions"`
	WallS       float64                `json:"wall_s"`
	Violations  int                    `json:"violations"`
}

func (c *Ctx) WriteEvidence(level string, cov map[string]interface{}, assumptions []string) error {
	ev := Evidence{PropertyID: c.Prop, Tier: c.Tier, Seed: int64(c.Seed), Level: level, Coverage: cov,
		Assumptions: assumptions, WallS: time.Since(c.Start).Seconds(), Violations: c.NumViolations()}
	if h := time.Since(c.Start).Hours(); h > 0 {
		if n, ok := cov["evaluations"].(int); ok {
			cov["runs_per_hour"] = int(float64(n) / h)
		}
	}
	data, err := json.MarshalIndent(&ev, "", " ")
	if err != nil {
		return err
	}
	dir := filepath.Join(VerifDir, "evidence")
	if d := os.Getenv("VERIF_EVIDENCE_DIR"); d != "" {
		dir = d // mutation-testing runs must not overwrite the committed evidence
	}
	if err := os.MkdirAll(dir, 0o755); err != nil {
		return err
	}
	return os.WriteFile(filepath.Join(dir, c.Prop+".json"), append(data, '\n'), 0o644)
}

// ---- worker pool ----

// ParallelDo runs fn(worker, i) for i in [0,n) on c.Workers goroutines.
// Results must be stored by index by fn; order of execution is irrelevant to
// every result because each job is a pure function of its plan.
func (c *Ctx) ParallelDo(n int, fn func(worker, i int) error) error {
	var wg sync.WaitGroup
	var mu sync.Mutex
	var firstErr error
	next := 0
	w := c.Workers
	if w > n {
		w = n
	}
	for k := 0; k < w; k++ {
		wg.Add(1)
		go func(k int) {
			defer wg.Done()
			for {
				mu.Lock()
				if firstErr != nil || next >= n {
					mu.Unlock()
					return
				}
				i := next
				next++
				mu.Unlock()
				if err := fn(k, i); err != nil {
					mu.Lock()
					if firstErr == nil {
						firstErr = err
					}
					mu.Unlock()
					return
				}
			}
		}(k)
	}
	wg.Wait()
	return firstErr
}

// ShardedDo runs fn(worker, i) for i in [0,n) with job i pinned to worker
// shard(i) % Workers: every run of one configuration happens in the same worker
// directory (same absolute paths, same private HOME/TMPDIR).
func (c *Ctx) ShardedDo(n int, shard func(i int) int, fn func(worker, i int) error) error {
	lists := make([][]int, c.Workers)
	for i := 0; i < n; i++ {
		w := shard(i) % c.Workers
		if w < 0 {
			w = -w
		}
		lists[w] = append(lists[w], i)
	}
	var wg sync.WaitGroup
	var mu sync.Mutex
	var firstErr error
	for w := range lists {
		wg.Add(1)
		go func(w int) {
			defer wg.Done()
			for _, i := range lists[w] {
				mu.Lock()
				failed := firstErr != nil
				mu.Unlock()
				if failed {
					return
				}
				if err := fn(w, i); err != nil {
					mu.Lock()
					if firstErr == nil {
						firstErr = err
					}
					mu.Unlock()
					return
				}
			}
		}(w)
	}
	wg.Wait()
	return firstErr
}
