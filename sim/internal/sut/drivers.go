package sut

import (
	"fmt"
	"os"
	"path/filepath"
	"regexp"
	"sort"
	"strings"
	"sync"
	"text/template"

	"verifsim/internal/corpus"
	"verifsim/internal/rewrite"
	"verifsim/internal/scratch"
)

const DrvModule = "simwork"

// Variant is one way of generating code from a grammar.
type Variant struct {
	Name  string
	Flags []string
}

var AllVariants = []Variant{
	{"plain", nil},
	{"zip", []string{"-zip"}},
	{"dbg", []string{"-debug_parser", "-debug_lexer"}},
	{"zipdbg", []string{"-zip", "-debug_parser"}},
}

// Driver is one built driver binary (all variants of one grammar).
type Driver struct {
	Grammar  *corpus.Grammar
	Variants []Variant
	Bin      string
	HasLexer bool
}

type Drivers struct {
	Dropped   map[string]string // optional (random) grammars gocc refused
	Broken    map[string]string // grammar id -> compiler output: generated code that does not build
	Dir       string            // scratch module
	List      []*Driver
	Census    *rewrite.Census
	SiteNames []string
	Race      bool
}

var nonIdent = regexp.MustCompile(`[^a-zA-Z0-9]`)

func dirName(id string) string { return "g" + nonIdent.ReplaceAllString(id, "_") }

// BuildDrivers generates code for every (grammar, variant) with the REAL gocc
// built from the working tree, instruments it (yield points, knob), writes the
// glue and builds one driver binary per grammar.
// StmtYields makes BuildDrivers insert a yield before every statement of the
// generated code instead of only at function entries and loop heads.
var StmtYields bool

func BuildDrivers(g *Gocc, grammars []*corpus.Grammar, variants []Variant, race bool, instrument bool) (*Drivers, error) {
	d := &Drivers{Dir: filepath.Join(g.Root, "drv"), Race: race}
	if race {
		d.Dir = filepath.Join(g.Root, "drvrace")
	}
	if err := os.MkdirAll(d.Dir, 0o755); err != nil {
		return nil, err
	}
	if err := os.WriteFile(filepath.Join(d.Dir, "go.mod"), []byte("module "+DrvModule+"\n\ngo 1.24\n"), 0o644); err != nil {
		return nil, err
	}
	for _, p := range []string{"gsim", "gsync", "act", "harness"} {
		if err := scratch.CopyInject(p, filepath.Join(d.Dir, p), DrvModule); err != nil {
			return nil, err
		}
	}
	type genJob struct {
		gr  *corpus.Grammar
		v   Variant
		err error
	}
	var jobs []*genJob
	for _, gr := range grammars {
		drv := &Driver{Grammar: gr, HasLexer: !gr.NeedsFlag("-no_lexer")}
		for _, v := range variants {
			if gr.NeedsFlag("-no_lexer") && contains(v.Flags, "-debug_lexer") {
				v = Variant{v.Name, remove(v.Flags, "-debug_lexer")}
			}
			drv.Variants = append(drv.Variants, v)
			jobs = append(jobs, &genJob{gr: gr, v: v})
		}
		d.List = append(d.List, drv)
	}
	// generate (parallel; each gocc run has its own directory)
	var wg sync.WaitGroup
	sem := make(chan struct{}, 16)
	for _, j := range jobs {
		wg.Add(1)
		go func(j *genJob) {
			defer wg.Done()
			sem <- struct{}{}
			defer func() { <-sem }()
			dir := filepath.Join(d.Dir, "gen", dirName(j.gr.ID), j.v.Name)
			if err := os.MkdirAll(dir, 0o755); err != nil {
				j.err = err
				return
			}
			pkg := DrvModule + "/gen/" + dirName(j.gr.ID) + "/" + j.v.Name
			text := j.gr.Render(pkg, DrvModule+"/act")
			if err := os.WriteFile(filepath.Join(dir, "g.bnf"), []byte(text), 0o644); err != nil {
				j.err = err
				return
			}
			args := append(append([]string{}, j.gr.Flags...), j.v.Flags...)
			args = append(args, "g.bnf")
			out, err := scratch.Run(dir, []string{"PATH=/usr/bin:/bin", "HOME=" + d.Dir, "GOPATH=" + filepath.Join(d.Dir, "gopath")}, g.Real, args...)
			if err != nil {
				j.err = fmt.Errorf("gocc %v on workload grammar %s: %v: %s", args, j.gr.ID, err, out)
			} else if j.gr.Optional && strings.Contains(out, "conflicts") {
				j.err = fmt.Errorf("gocc reports conflicts on %s: %s", j.gr.ID, out)
			}
		}(j)
	}
	wg.Wait()
	d.Dropped = map[string]string{}
	for _, j := range jobs {
		if j.err != nil {
			if j.gr.Optional {
				d.Dropped[j.gr.ID] = j.err.Error()
				continue
			}
			return nil, fmt.Errorf("WORKLOAD-INVALID: %v", j.err)
		}
	}
	if len(d.Dropped) > 0 {
		var keep []*Driver
		for _, drv := range d.List {
			if _, bad := d.Dropped[drv.Grammar.ID]; bad {
				os.RemoveAll(filepath.Join(d.Dir, "gen", dirName(drv.Grammar.ID)))
				continue
			}
			keep = append(keep, drv)
		}
		d.List = keep
	}
	d.Broken = map[string]string{}
	// diagnose finds the grammars whose generated code does not compile, drops them
	// from the driver list and records the compiler output (the check decides what
	// that means).  It is only run when instrumenting or building fails.
	diagnose := func() error {
		out, err := scratch.Run(d.Dir, scratch.GoEnv(), scratch.GoBin(), "build", "-gcflags=-e", "./gen/...")
		if err == nil {
			return nil
		}
		byDir := map[string]string{}
		for _, line := range strings.Split(out, "\n") {
			if !strings.HasPrefix(line, "gen/") {
				continue
			}
			parts := strings.SplitN(line, "/", 3)
			byDir[parts[1]] += line + "\n"
		}
		var keep []*Driver
		for _, drv := range d.List {
			if msg, bad := byDir[dirName(drv.Grammar.ID)]; bad {
				d.Broken[drv.Grammar.ID] = msg
				os.RemoveAll(filepath.Join(d.Dir, "gen", dirName(drv.Grammar.ID)))
				os.RemoveAll(filepath.Join(d.Dir, "cmd", dirName(drv.Grammar.ID)))
			} else {
				keep = append(keep, drv)
			}
		}
		if len(d.Broken) == 0 {
			return fmt.Errorf("WORKLOAD-INVALID: generated code does not build: %s", clipOut(out))
		}
		d.List = keep
		return nil
	}
	if instrument && len(d.List) > 0 {
		c, err := rewrite.Instrument(rewrite.Options{
			Dir:       d.Dir,
			Patterns:  []string{"./gen/..."},
			OwnPrefix: DrvModule + "/gen/",
			RTImport:  DrvModule + "/gsim",
			Redirect:  map[string]string{"sync": DrvModule + "/gsync"},
			StepFunc:  "Yield",
			StepArg:   true,
			StmtSteps: StmtYields,
			KnobConst: "iNITIAL_STACK_SIZE",
			Env:       scratch.GoEnv(),
		})
		if err != nil {
			// probably generated code that does not compile: find the grammars, drop them, retry once
			if derr := diagnose(); derr != nil {
				return nil, derr
			}
			if len(d.Broken) == 0 {
				return nil, fmt.Errorf("WORKLOAD-INVALID: generated code cannot be loaded/instrumented: %v", err)
			}
			if len(d.List) > 0 {
				c, err = rewrite.Instrument(rewrite.Options{Dir: d.Dir, Patterns: []string{"./gen/..."}, OwnPrefix: DrvModule + "/gen/", RTImport: DrvModule + "/gsim", Redirect: map[string]string{"sync": DrvModule + "/gsync"},
					StepFunc: "Yield", StepArg: true, StmtSteps: StmtYields, KnobConst: "iNITIAL_STACK_SIZE", Env: scratch.GoEnv()})
				if err != nil {
					return nil, fmt.Errorf("WORKLOAD-INVALID: generated code cannot be loaded/instrumented: %v", err)
				}
			}
		}
		if c != nil {
			d.Census = c
			d.SiteNames = c.StepSiteNames
		}
	}
	if d.Census == nil {
		d.Census = &rewrite.Census{}
	}
	if len(d.List) == 0 {
		return d, nil
	}
	// glue + build
	for _, drv := range d.List {
		cmdDir := filepath.Join(d.Dir, "cmd", dirName(drv.Grammar.ID))
		if err := os.MkdirAll(cmdDir, 0o755); err != nil {
			return nil, err
		}
		if err := writeGlue(cmdDir, drv); err != nil {
			return nil, err
		}
	}
	bin := filepath.Join(g.Root, "bin")
	errs := make([]error, len(d.List))
	// one `go build` for all commands shares compilation of common packages
	flags := []string{}
	if race {
		flags = append(flags, "-race")
	}
	args := append([]string{"build"}, flags...)
	outDir := filepath.Join(bin, "drv")
	if race {
		outDir = filepath.Join(bin, "drvrace")
	}
	os.MkdirAll(outDir, 0o755)
	args = append(args, "-o", outDir+"/", "./cmd/...")
	out, err := scratch.Run(d.Dir, scratch.GoEnv(), scratch.GoBin(), args...)
	if err != nil {
		before := len(d.Broken)
		if derr := diagnose(); derr != nil {
			return nil, derr
		}
		if len(d.Broken) == before {
			return nil, fmt.Errorf("WORKLOAD-INVALID: generated code (or its glue) does not build: %v\n%s", err, clipOut(out))
		}
		if len(d.List) == 0 {
			return d, nil
		}
		if out, err = scratch.Run(d.Dir, scratch.GoEnv(), scratch.GoBin(), args...); err != nil {
			return nil, fmt.Errorf("WORKLOAD-INVALID: generated code (or its glue) does not build: %v\n%s", err, clipOut(out))
		}
	}
	for i, drv := range d.List {
		drv.Bin = filepath.Join(outDir, dirName(drv.Grammar.ID))
		if _, err := os.Stat(drv.Bin); err != nil {
			errs[i] = err
		}
	}
	for _, e := range errs {
		if e != nil {
			return nil, e
		}
	}
	return d, nil
}

func clipOut(s string) string {
	if len(s) > 3000 {
		return s[:3000] + "..."
	}
	return s
}

func contains(xs []string, x string) bool {
	for _, y := range xs {
		if y == x {
			return true
		}
	}
	return false
}

func remove(xs []string, x string) []string {
	var out []string
	for _, y := range xs {
		if y != x {
			out = append(out, y)
		}
	}
	return out
}

var glueTmpl = template.Must(template.New("glue").Parse(`// Code generated by verifsim; DO NOT EDIT.

package main

import (
	"fmt"

	"{{.Mod}}/harness"
{{- if .HasLexer}}
	lexer_{{.V}} "{{.Pkg}}/lexer"
{{- end}}
{{- if .HasParser}}
	errors_{{.V}} "{{.Pkg}}/errors"
	parser_{{.V}} "{{.Pkg}}/parser"
{{- end}}
	token_{{.V}} "{{.Pkg}}/token"
)

type glue_{{.V}} struct{}

func init() { glues["{{.V}}"] = glue_{{.V}}{} }

func (glue_{{.V}}) HasLexer() bool  { return {{.HasLexer}} }
func (glue_{{.V}}) HasParser() bool { return {{.HasParser}} }

var shapes_{{.V}} = {{.Shapes}}

func (glue_{{.V}}) Shapes() map[int][]string { return shapes_{{.V}} }

{{if .HasLexer}}
type lex_{{.V}} struct{ l *lexer_{{.V}}.Lexer }

func (w *lex_{{.V}}) Scan() interface{}          { return w.l.Scan() }
func (w *lex_{{.V}}) Reset()                     { w.l.Reset() }
func (w *lex_{{.V}}) SetContext(c interface{})   { w.l.Context = c }
func (glue_{{.V}}) NewLexer(src []byte) harness.Lexer { return &lex_{{.V}}{lexer_{{.V}}.NewLexer(src)} }
func (glue_{{.V}}) NewLexerFile(path string) (harness.Lexer, error) {
	l, err := lexer_{{.V}}.NewLexerFile(path)
	if err != nil {
		return nil, err
	}
	return &lex_{{.V}}{l}, nil
}
{{else}}
func (glue_{{.V}}) NewLexer(src []byte) harness.Lexer { return nil }
func (glue_{{.V}}) NewLexerFile(path string) (harness.Lexer, error) { return nil, nil }
{{end}}

{{if .HasParser}}
type par_{{.V}} struct{ p *parser_{{.V}}.Parser }
type scan_{{.V}} struct{ next func() interface{} }

func (s scan_{{.V}}) Scan() *token_{{.V}}.Token { return s.next().(*token_{{.V}}.Token) }
func (w *par_{{.V}}) Parse(next func() interface{}) (interface{}, error) {
	return w.p.Parse(scan_{{.V}}{next})
}
func (w *par_{{.V}}) Reset()                   { w.p.Reset() }
func (w *par_{{.V}}) SetContext(c interface{}) { w.p.Context = c }
func (glue_{{.V}}) NewParser() harness.Parser   { return &par_{{.V}}{parser_{{.V}}.NewParser()} }
func (glue_{{.V}}) ErrInfo(x interface{}) (harness.ErrInfo, bool) {
	e, ok := x.(*errors_{{.V}}.Error)
	if !ok || e == nil {
		return harness.ErrInfo{}, false
	}
	syms := make([]interface{}, len(e.ErrorSymbols))
	for i, s := range e.ErrorSymbols {
		syms[i] = s
	}
	var tok interface{}
	if e.ErrorToken != nil {
		tok = e.ErrorToken
	}
	return harness.ErrInfo{Err: e.Err, Token: tok, Expected: e.ExpectedTokens, Symbols: syms, StackTop: e.StackTop}, true
}
{{else}}
func (glue_{{.V}}) NewParser() harness.Parser { return nil }
func (glue_{{.V}}) ErrInfo(x interface{}) (harness.ErrInfo, bool) { return harness.ErrInfo{}, false }
{{end}}

func (glue_{{.V}}) MakeToken(name, lit string, off, line, col int) interface{} {
	typ := token_{{.V}}.TokMap.Type(name)
	if name == "$EOF" {
		typ = token_{{.V}}.EOF
	}
	return &token_{{.V}}.Token{Type: typ, Lit: []byte(lit), Pos: token_{{.V}}.Pos{Offset: off, Line: line, Column: col}}
}

func (glue_{{.V}}) MutateToken(x interface{}) {
	if t, ok := x.(*token_{{.V}}.Token); ok && t != nil {
		t.Lit = t.Lit[:len(t.Lit)/2] // e.g. an action that trims the literal in place (slice header only)
		t.Pos.Column += 1000
	}
}

func (glue_{{.V}}) TokMethods(x interface{}) (out string) {
	t, ok := x.(*token_{{.V}}.Token)
	if !ok || t == nil {
		return ""
	}
	// some helpers slice the literal and panic on short ones: every call on its own
	try := func(f func() string) {
		defer func() {
			if r := recover(); r != nil {
				out += "panic;"
			}
		}()
		out += f() + ";"
	}
	try(func() string { return t.IDValue() })
	try(func() string { v, err := t.Int64Value(); return fmt.Sprint(v, err) })
	try(func() string { v, err := t.Int32Value(); return fmt.Sprint(v, err) })
	try(func() string { v, err := t.Float64Value(); return fmt.Sprint(v, err) })
	try(func() string { v, n := t.UTF8Rune(); return fmt.Sprint(v, n) })
	try(func() string { return fmt.Sprint(t.Equals(t)) })
	try(func() string { return t.Pos.String() })
	try(func() string { return token_{{.V}}.TokMap.TokenString(t) })
	try(func() string { return token_{{.V}}.TokMap.StringType(t.Type) })
	try(func() string { return t.StringValue() })
	try(func() string { return fmt.Sprint(t.CharLiteralValue()) })
	try(func() string { return t.String() })
	return out
}

func (glue_{{.V}}) TokInfo(x interface{}) (harness.TokInfo, bool) {
	t, ok := x.(*token_{{.V}}.Token)
	if !ok || t == nil {
		return harness.TokInfo{}, false
	}
	return harness.TokInfo{Type: int(t.Type), Name: token_{{.V}}.TokMap.Id(t.Type), Lit: string(t.Lit),
		Offset: t.Pos.Offset, Line: t.Pos.Line, Column: t.Pos.Column, Ctx: t.Pos.Context}, true
}
`))

func writeGlue(cmdDir string, drv *Driver) error {
	main := `// Code generated by verifsim; DO NOT EDIT.

package main

import "` + DrvModule + `/harness"

var glues = map[string]harness.Glue{}

func main() { harness.Main(glues) }
`
	if err := os.WriteFile(filepath.Join(cmdDir, "main.go"), []byte(main), 0o644); err != nil {
		return err
	}
	names := []string{}
	for _, v := range drv.Variants {
		names = append(names, v.Name)
	}
	sort.Strings(names)
	for _, v := range drv.Variants {
		f, err := os.Create(filepath.Join(cmdDir, "glue_"+v.Name+".go"))
		if err != nil {
			return err
		}
		err = glueTmpl.Execute(f, map[string]interface{}{
			"Mod": DrvModule, "V": v.Name, "Pkg": DrvModule + "/gen/" + dirName(drv.Grammar.ID) + "/" + v.Name,
			"HasLexer": drv.HasLexer, "HasParser": drv.Grammar.HasSyntax(),
			"Shapes": fmt.Sprintf("%#v", drv.Grammar.Shapes()),
		})
		f.Close()
		if err != nil {
			return err
		}
	}
	_ = strings.Join
	return nil
}
