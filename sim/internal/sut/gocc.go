// Package sut builds the system under test from /repo's current working tree:
// the real gocc binary (fidelity reference) and sim-gocc (same code with the
// simulator's seams cut in by internal/rewrite).
package sut

import (
	"fmt"
	"io/fs"
	"os"
	"path/filepath"

	"verifsim/internal/rewrite"
	"verifsim/internal/scratch"
)

const GoccModule = "github.com/goccmack/gocc"
const injectPrefix = GoccModule + "/internal/verifsim"

type Gocc struct {
	Root     string // scratch root
	Copy     string // scratch copy of the repository
	Real     string // path of the uninstrumented binary
	Sim      string // path of the instrumented binary ("" if not built)
	Census   *rewrite.Census
	RepoPath string
}

func RepoPath() string {
	if p := os.Getenv("VERIF_REPO"); p != "" {
		return p
	}
	return "/repo"
}

// BuildGocc copies the repository, builds the real binary, then (withSim)
// instruments the copy in place and builds sim-gocc.
func BuildGocc(root string, withSim bool) (*Gocc, error) {
	g := &Gocc{Root: root, RepoPath: RepoPath()}
	g.Copy = filepath.Join(root, "gocc")
	if err := scratch.CopyTree(g.RepoPath, g.Copy, func(rel string, d fs.DirEntry) bool { return rel == "doc" }); err != nil {
		return nil, fmt.Errorf("copy repo: %w", err)
	}
	bin := filepath.Join(root, "bin")
	if err := os.MkdirAll(bin, 0o755); err != nil {
		return nil, err
	}
	g.Real = filepath.Join(bin, "gocc-real")
	if err := scratch.GoBuild(g.Copy, g.Real, "."); err != nil {
		return nil, err
	}
	if !withSim {
		return g, nil
	}
	redirect := map[string]string{}
	for std, name := range map[string]string{"os": "simos", "time": "simtime", "math/rand": "simrand", "math/rand/v2": "simrand2", "crypto/rand": "simcrand", "io/ioutil": "simioutil"} {
		dst := filepath.Join(g.Copy, "internal", "verifsim", name)
		if err := scratch.CopyInject(name, dst, injectPrefix); err != nil {
			return nil, err
		}
		redirect[std] = injectPrefix + "/" + name
	}
	if err := scratch.CopyInject("simrt", filepath.Join(g.Copy, "internal", "verifsim", "simrt"), injectPrefix); err != nil {
		return nil, err
	}
	coop := map[string]string{}
	for std, name := range map[string]string{"sync": "simsync", "runtime": "simruntime"} {
		if err := scratch.CopyInject(name, filepath.Join(g.Copy, "internal", "verifsim", name), injectPrefix); err != nil {
			return nil, err
		}
		coop[std] = injectPrefix + "/" + name
	}
	c, err := rewrite.Instrument(rewrite.Options{
		Dir:          g.Copy,
		Patterns:     []string{"."},
		OwnPrefix:    GoccModule,
		SkipPrefix:   []string{injectPrefix},
		Redirect:     redirect,
		RTImport:     injectPrefix + "/simrt",
		StepFunc:     "Tick",
		MapRanges:    true,
		DeferAtExit:  true,
		CoopGo:       true,
		CoopRedirect: coop,
		Env:          scratch.GoEnv(),
	})
	if err != nil {
		return nil, fmt.Errorf("instrument gocc: %w", err)
	}
	g.Census = c
	g.Sim = filepath.Join(bin, "gocc-sim")
	if err := scratch.GoBuild(g.Copy, g.Sim, "."); err != nil {
		return nil, fmt.Errorf("instrumented copy does not build (harness problem): %w", err)
	}
	return g, nil
}
