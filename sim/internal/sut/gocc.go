// Package sut builds the system under test from /repo's current working tree:
// the real gocc binary (fidelity reference) and sim-gocc (same code with the
// simulator's seams cut in by internal/rewrite).
package sut

import (
	"fmt"
	"go/ast"
	"go/parser"
	"go/token"
	"io/fs"
	"os"
	"path/filepath"
	"strings"

	"verifsim/internal/rewrite"
	"verifsim/internal/scratch"
)

const GoccModule = "github.com/goccmack/gocc"
const injectPrefix = GoccModule + "/internal/verifsim"

type Gocc struct {
	Root         string // scratch root
	Copy         string // scratch copy of the repository
	Real         string // path of the uninstrumented binary
	Sim          string // path of the instrumented binary ("" if not built)
	ChanFallback string // non-empty: channel rewriting did not build; the reason
	Race         string // path of the uninstrumented binary built with -race ("" unless gocc has go statements)
	Census       *rewrite.Census
	RepoPath     string
}

func RepoPath() string {
	if p := os.Getenv("VERIF_REPO"); p != "" {
		return p
	}
	return "/repo"
}

// BuildGocc copies the repository, builds the real binary, then (withSim)
// instruments the copy in place and builds sim-gocc.
func BuildGocc(root string, withSim bool) (*Gocc, error) {
	g := &Gocc{Root: root, RepoPath: RepoPath()}
	g.Copy = filepath.Join(root, "gocc")
	if err := scratch.CopyTree(g.RepoPath, g.Copy, func(rel string, d fs.DirEntry) bool { return rel == "doc" }); err != nil {
		return nil, fmt.Errorf("copy repo: %w", err)
	}
	bin := filepath.Join(root, "bin")
	if err := os.MkdirAll(bin, 0o755); err != nil {
		return nil, err
	}
	g.Real = filepath.Join(bin, "gocc-real")
	if err := scratch.GoBuild(g.Copy, g.Real, "."); err != nil {
		return nil, err
	}
	if !withSim {
		return g, nil
	}
	// gocc has no goroutines today.  If the tree has gained some, also build the
	// uninstrumented binary with the race detector (used by C11 as an observation
	// of real parallel execution, which a cooperative scheduler cannot reproduce).
	if hasGoStatements(g.Copy) {
		g.Race = filepath.Join(bin, "gocc-race")
		if err := scratch.GoBuild(g.Copy, g.Race, ".", "-race"); err != nil {
			return nil, err
		}
	}
	// Instrument and build.  Channel rewriting is the most ambitious seam: if the
	// copy does not build with it (a channel that belongs to the standard library,
	// an unsupported construct), the copy is made again and instrumented without
	// it; the goroutines then stay real (census says so) and are only perturbed.
	orig := g.Copy
	for attempt, chans := range []bool{true, false} {
		if attempt > 0 {
			g.Copy = orig + "-nochan"
			if err := scratch.CopyTree(g.RepoPath, g.Copy, func(rel string, d fs.DirEntry) bool { return rel == "doc" }); err != nil {
				return nil, fmt.Errorf("copy repo: %w", err)
			}
		}
		err := g.instrumentAndBuild(bin, chans)
		if err == nil {
			break
		}
		if attempt == 1 || g.Census == nil || len(g.Census.ChanOps) == 0 {
			return nil, err
		}
		g.ChanFallback = err.Error()
	}
	return g, nil
}

func (g *Gocc) instrumentAndBuild(bin string, coopChans bool) error {
	redirect := map[string]string{}
	for std, name := range map[string]string{"os": "simos", "time": "simtime", "math/rand": "simrand", "math/rand/v2": "simrand2", "crypto/rand": "simcrand", "io/ioutil": "simioutil"} {
		dst := filepath.Join(g.Copy, "internal", "verifsim", name)
		if err := scratch.CopyInject(name, dst, injectPrefix); err != nil {
			return err
		}
		redirect[std] = injectPrefix + "/" + name
	}
	if err := scratch.CopyInject("simrt", filepath.Join(g.Copy, "internal", "verifsim", "simrt"), injectPrefix); err != nil {
		return err
	}
	coop := map[string]string{}
	for std, name := range map[string]string{"sync": "simsync", "runtime": "simruntime"} {
		if err := scratch.CopyInject(name, filepath.Join(g.Copy, "internal", "verifsim", name), injectPrefix); err != nil {
			return err
		}
		coop[std] = injectPrefix + "/" + name
	}
	c, err := rewrite.Instrument(rewrite.Options{
		Dir:          g.Copy,
		Patterns:     []string{"."},
		OwnPrefix:    GoccModule,
		SkipPrefix:   []string{injectPrefix},
		Redirect:     redirect,
		RTImport:     injectPrefix + "/simrt",
		StepFunc:     "Tick",
		MapRanges:    true,
		DeferAtExit:  true,
		CoopGo:       true,
		CoopChans:    coopChans,
		CoopRedirect: coop,
		Env:          scratch.GoEnv(),
	})
	if err != nil {
		return fmt.Errorf("instrument gocc: %w", err)
	}
	g.Census = c
	if len(c.GoStmts) > 0 && !c.CoopEnabled {
		// real goroutines stay real: perturb their schedule at every tick
		mode := "package simrt\n\nfunc init() { Threaded = true }\n"
		if err := os.WriteFile(filepath.Join(g.Copy, "internal", "verifsim", "simrt", "zz_mode.go"), []byte(mode), 0o644); err != nil {
			return err
		}
	}
	g.Sim = filepath.Join(bin, "gocc-sim")
	if err := scratch.GoBuild(g.Copy, g.Sim, "."); err != nil {
		return fmt.Errorf("instrumented copy does not build (harness problem): %w", err)
	}
	return nil
}

// hasGoStatements scans gocc's own non-test sources (not example/, not tests) for a go statement.
func hasGoStatements(root string) bool {
	found := false
	filepath.WalkDir(root, func(p string, d fs.DirEntry, err error) error {
		if err != nil || found {
			return nil
		}
		rel, _ := filepath.Rel(root, p)
		if d.IsDir() {
			if rel == "example" || rel == "doc" || strings.HasPrefix(rel, filepath.Join("internal", "test")) || strings.HasPrefix(rel, filepath.Join("internal", "verifsim")) {
				return filepath.SkipDir
			}
			return nil
		}
		if !strings.HasSuffix(p, ".go") || strings.HasSuffix(p, "_test.go") {
			return nil
		}
		fset := token.NewFileSet()
		f, err := parser.ParseFile(fset, p, nil, 0)
		if err != nil {
			return nil
		}
		ast.Inspect(f, func(n ast.Node) bool {
			if _, ok := n.(*ast.GoStmt); ok {
				found = true
			}
			return !found
		})
		return nil
	})
	return found
}
