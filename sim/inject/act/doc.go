package act
