// Package act is the stub behind every action expression of a workload
// grammar: `<< act.N(<alt>, $0, $T2) >>` / `<< act.NC($Context, <alt>, ...) >>`.
// It records the call in the log of the task that is running, builds a tree
// value, checks the invariants that can be checked at the call (token
// attributes are objects the task's own scanner handed out; $Context is the
// task's own context) and injects the planned fault at the k-th call.
package act

import (
	"fmt"
	"strconv"
	"strings"

	"verifsim/inject/gsim"
)

// Node is the value an action builds.
type Node struct {
	Alt  int
	Ctx  bool
	Args []interface{}
	str  string
}

func (n *Node) String() string { return n.str }

// Fault kinds.
const (
	FaultNone  = ""
	FaultError = "error"
	FaultPanic = "panic"
)

// Injected is the error value (or panic value) a planned fault produces.
type Injected struct {
	Task int
	Call int
	Tag  string // unique text
}

func (e *Injected) Error() string { return e.Tag }

// Session is the per-task state of the stub.
type Session struct {
	TaskID       int
	Log          []string                           // rendering of the node built by each call, in call order
	Calls        int                                // number of calls so far in the current operation
	Ctx          interface{}                        // the object stored in Parser.Context for this task
	FaultCall    int                                // 1-based call index to fault at; 0 = none
	FaultKind    string                             // error | panic
	Fault        *Injected                          // the injected value (set when the fault fires)
	Handed       map[interface{}]bool               // tokens the task's scanner handed out in the current operation
	Render       func(x interface{}) (string, bool) // glue: grammar-specific rendering (tokens, error attributes)
	SwapAt       int                                // > 0: from this $Context-using call on the stub stores a NEW value in the parser's Context field (through SetCtx)
	SetCtx       func(c interface{})                // installed by the harness: assigns the parser's Context field
	NextCtx      func(cur interface{}) interface{}  // the value to store
	Mutate       func(tok interface{})              // if set: every token argument is modified in place AFTER it was logged
	NestAt       int                                // > 0: at this call the action runs ANOTHER parser of the same package to completion (Nested)
	Nested       func()                             // installed by the harness
	TokMethods   func(tok interface{}) string       // if set: the convenience methods of every token argument are called (IDValue, Int64Value, ...)
	Problems     []string                           // invariant violations noticed at call time
	AfterFault   int                                // calls made after the fault fired (must stay 0)
	MethodCalls  int                                // token arguments whose convenience methods were called in the current operation
	MethodDigest uint64                             // running digest of what they returned
	Shapes       map[int][]string                   // per label: what each argument must be ("err", "tok:<id>", "tok", "any", "const")
	Deep         bool                               // RenderVal renders a node again from the values it holds instead of returning the text made when it was built
}

// Begin resets the per-operation state.
func (s *Session) Begin(faultCall int, faultKind string) {
	s.NestAt = 0
	s.Nested = nil
	s.TokMethods = nil
	s.MethodCalls, s.MethodDigest = 0, 14695981039346656037
	s.SwapAt = 0
	s.SetCtx = nil
	s.Mutate = nil
	s.Log = s.Log[:0:0]
	s.Calls = 0
	s.FaultCall = faultCall
	s.FaultKind = faultKind
	s.Fault = nil
	s.Handed = map[interface{}]bool{}
	s.Problems = nil
	s.AfterFault = 0
}

func session() *Session {
	t := gsim.Cur()
	if t == nil || t.Data == nil {
		panic("act: action called outside a harness task")
	}
	return t.Data.(*Session)
}

// RenderVal is the canonical rendering of any attribute value.
func (s *Session) RenderVal(x interface{}) string {
	switch v := x.(type) {
	case nil:
		return "nil"
	case *Node:
		if v == nil {
			return "nil-node"
		}
		if s.Deep {
			parts := make([]string, len(v.Args))
			for i, a := range v.Args {
				parts[i] = s.RenderVal(a)
			}
			c := ""
			if v.Ctx {
				c = "c"
			}
			return Shorten("N" + strconv.Itoa(v.Alt) + c + "(" + strings.Join(parts, ",") + ")")
		}
		return v.str
	case string:
		return "S" + strconv.Quote(v)
	}
	if s.Render != nil {
		if str, ok := s.Render(x); ok {
			return str
		}
	}
	return fmt.Sprintf("?%T", x)
}

func (s *Session) call(ctx interface{}, withCtx bool, alt int, args []interface{}) (interface{}, error) {
	s.Calls++
	if s.Fault != nil {
		s.AfterFault++
	}
	n := &Node{Alt: alt, Ctx: withCtx, Args: args}
	parts := make([]string, len(args))
	for i, a := range args {
		parts[i] = s.RenderVal(a)
		if a != nil && s.Handed != nil {
			if _, isNode := a.(*Node); !isNode {
				if str, ok := s.Render(a); ok && strings.HasPrefix(str, "T<") && !s.Handed[a] {
					s.Problems = append(s.Problems, fmt.Sprintf("call %d (alt %d): token argument %d (%s) is not an object this task's scanner returned", s.Calls, alt, i, str))
				}
			}
		}
	}
	if sh, ok := s.Shapes[alt]; ok && len(sh) == len(parts) && s.Mutate == nil {
		// $i is the attribute of the i-th body symbol: a terminal's attribute is a token
		// of that terminal's type, the first attribute of an `error` alternative is the error
		for i, want := range sh {
			ok := true
			switch {
			case want == "err":
				ok = strings.HasPrefix(parts[i], "E{")
			case want == "tok":
				ok = strings.HasPrefix(parts[i], "T<")
			case strings.HasPrefix(want, "tok:"):
				ok = strings.HasPrefix(parts[i], "T<"+want[4:]+">")
			}
			if !ok {
				s.Problems = append(s.Problems, fmt.Sprintf("call %d (alt %d): argument %d must be %s (the attribute of that body symbol) but is %s", s.Calls, alt, i, want, clipA(parts[i])))
			}
		}
	}
	c := ""
	if withCtx {
		c = "c"
		if ctx != s.Ctx {
			s.Problems = append(s.Problems, fmt.Sprintf("call %d (alt %d): $Context is %v, the parser's Context field holds %v", s.Calls, alt, ctx, s.Ctx))
		}
	}
	n.str = Shorten("N" + strconv.Itoa(alt) + c + "(" + strings.Join(parts, ",") + ")")
	s.Log = append(s.Log, n.str)
	if withCtx && s.SwapAt > 0 && s.Calls >= s.SwapAt && s.SetCtx != nil && s.NextCtx != nil {
		// the action replaces the parser's Context: later actions must see the new value
		s.Ctx = s.NextCtx(s.Ctx)
		s.SetCtx(s.Ctx)
	}
	if s.NestAt > 0 && s.Calls == s.NestAt && s.Nested != nil {
		s.Nested() // e.g. an action that parses a quoted sub-document with a helper parser
	}
	if s.TokMethods != nil {
		for _, a := range args {
			if a == nil {
				continue
			}
			if _, isNode := a.(*Node); !isNode {
				if str, ok := s.Render(a); ok && strings.HasPrefix(str, "T<") {
					s.MethodCalls++
					for _, c := range []byte(s.TokMethods(a)) {
						s.MethodDigest = (s.MethodDigest ^ uint64(c)) * 1099511628211
					}
				}
			}
		}
	}
	if s.Mutate != nil {
		for _, a := range args {
			if a == nil {
				continue
			}
			if _, isNode := a.(*Node); !isNode {
				if str, ok := s.Render(a); ok && strings.HasPrefix(str, "T<") {
					s.Mutate(a)
				}
			}
		}
	}
	if s.FaultCall > 0 && s.Calls == s.FaultCall && s.Fault == nil {
		s.Fault = &Injected{Task: s.TaskID, Call: s.Calls, Tag: fmt.Sprintf("injected-fault-task%d-call%d", s.TaskID, s.Calls)}
		if s.FaultKind == FaultPanic {
			panic(s.Fault)
		}
		return nil, s.Fault
	}
	return n, nil
}

// N is the action stub without context.
func N(alt int, args ...interface{}) (interface{}, error) {
	return session().call(nil, false, alt, args)
}

// NC is the action stub for alternatives that use $Context.
func NC(ctx interface{}, alt int, args ...interface{}) (interface{}, error) {
	return session().call(ctx, true, alt, args)
}

// Shorten keeps renderings of deep trees small: a rendering longer than 1 KiB
// is replaced by a digest of itself.  Children are shortened before their
// parent is built, so the cost per node is bounded, and the result is still a
// function of the whole tree (the harness's own evaluator applies the same rule).
func Shorten(s string) string {
	if len(s) <= 1024 {
		return s
	}
	h := uint64(14695981039346656037)
	for i := 0; i < len(s); i++ {
		h = (h ^ uint64(s[i])) * 1099511628211
	}
	return "#" + strconv.FormatUint(h, 16) + ":" + strconv.Itoa(len(s))
}

func clipA(s string) string {
	if len(s) > 120 {
		return s[:120] + "..."
	}
	return s
}
