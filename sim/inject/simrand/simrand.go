// Package simrand stands in for math/rand: the package-level functions draw
// from a source seeded by the plan instead of the runtime's random seed.
package simrand

import (
	"math/rand"

	"verifsim/inject/simrt"
)

var g = rand.New(rand.NewSource(int64(simrt.ThePlan.Rand)))

func note() { simrt.Logf("rand draw") }

func Seed(seed int64)                    {}
func Int63() int64                       { note(); return g.Int63() }
func Uint32() uint32                     { note(); return g.Uint32() }
func Uint64() uint64                     { note(); return g.Uint64() }
func Int31() int32                       { note(); return g.Int31() }
func Int() int                           { note(); return g.Int() }
func Int63n(n int64) int64               { note(); return g.Int63n(n) }
func Int31n(n int32) int32               { note(); return g.Int31n(n) }
func Intn(n int) int                     { note(); return g.Intn(n) }
func Float64() float64                   { note(); return g.Float64() }
func Float32() float32                   { note(); return g.Float32() }
func Perm(n int) []int                   { note(); return g.Perm(n) }
func Shuffle(n int, swap func(i, j int)) { note(); g.Shuffle(n, swap) }
func Read(p []byte) (n int, err error)   { note(); return g.Read(p) }
func NormFloat64() float64               { note(); return g.NormFloat64() }
func ExpFloat64() float64                { note(); return g.ExpFloat64() }
