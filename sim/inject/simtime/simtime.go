// Package simtime stands in for package time inside the scratch copy of gocc.
// Now/Since/Until read the plan's simulated clock (advanced by 1ms per reading,
// a function of the call count only); Sleep advances it without waiting.
package simtime

import (
	"time"

	"verifsim/inject/simrt"
)

var reads int64
var slept time.Duration

func Now() time.Time {
	reads++
	simrt.Logf("clock read %d", reads)
	return time.Unix(simrt.ThePlan.Clock, 0).UTC().Add(time.Duration(reads) * time.Millisecond).Add(slept)
}

func Since(t time.Time) time.Duration { return Now().Sub(t) }
func Until(t time.Time) time.Duration { return t.Sub(Now()) }
func Sleep(d time.Duration) {
	if d > 0 {
		slept += d
	}
}
