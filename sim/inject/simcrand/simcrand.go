// Package rand (simcrand) stands in for crypto/rand: a deterministic stream.
package rand

import (
	"io"
	mrand "math/rand"

	"verifsim/inject/simrt"
)

type det struct{ r *mrand.Rand }

func (d det) Read(p []byte) (int, error) { simrt.Logf("crand read %d", len(p)); return d.r.Read(p) }

var Reader io.Reader = det{mrand.New(mrand.NewSource(int64(simrt.ThePlan.Rand) ^ 0x5eed))}

func Read(b []byte) (int, error) { return io.ReadFull(Reader, b) }

func Text() string {
	const a = "ABCDEFGHIJKLMNOPQRSTUVWXYZ234567"
	b := make([]byte, 26)
	Read(b)
	for i := range b {
		b[i] = a[int(b[i])%32]
	}
	return string(b)
}
