// Package inject holds the source of the packages that are copied into scratch
// copies (of gocc, and of the module that hosts generated code).  They also
// compile here, under verifsim/inject/..., so that they are vetted with the rest.
package inject

import "embed"

//go:embed simrt simos simtime simrand simrand2 simcrand simioutil simsync simruntime gsim gsync act harness
var FS embed.FS
