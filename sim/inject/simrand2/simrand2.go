// Package rand (simrand2) stands in for math/rand/v2.
package rand

import (
	"math/rand/v2"

	"verifsim/inject/simrt"
)

var g = rand.New(rand.NewPCG(simrt.ThePlan.Rand, 0x9e3779b97f4a7c15))

func note() { simrt.Logf("rand draw") }

type intType interface {
	~int | ~int8 | ~int16 | ~int32 | ~int64 | ~uint | ~uint8 | ~uint16 | ~uint32 | ~uint64 | ~uintptr
}

func N[Int intType](n Int) Int {
	note()
	if n <= 0 {
		panic("invalid argument to N")
	}
	return Int(g.Uint64N(uint64(n)))
}
func Int64() int64                       { note(); return g.Int64() }
func Uint32() uint32                     { note(); return g.Uint32() }
func Uint64() uint64                     { note(); return g.Uint64() }
func Uint64N(n uint64) uint64            { note(); return g.Uint64N(n) }
func Uint32N(n uint32) uint32            { note(); return g.Uint32N(n) }
func Uint() uint                         { note(); return g.Uint() }
func UintN(n uint) uint                  { note(); return g.UintN(n) }
func Int32() int32                       { note(); return g.Int32() }
func Int() int                           { note(); return g.Int() }
func Int64N(n int64) int64               { note(); return g.Int64N(n) }
func Int32N(n int32) int32               { note(); return g.Int32N(n) }
func IntN(n int) int                     { note(); return g.IntN(n) }
func Float64() float64                   { note(); return g.Float64() }
func Float32() float32                   { note(); return g.Float32() }
func Perm(n int) []int                   { note(); return g.Perm(n) }
func Shuffle(n int, swap func(i, j int)) { note(); g.Shuffle(n, swap) }
func NormFloat64() float64               { note(); return g.NormFloat64() }
func ExpFloat64() float64                { note(); return g.ExpFloat64() }
