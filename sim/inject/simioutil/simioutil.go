// Package ioutil (simioutil) stands in for io/ioutil, routed through simos.
package ioutil

import (
	"io/fs"

	"verifsim/inject/simos"
)

func ReadFile(filename string) ([]byte, error) { return simos.ReadFile(filename) }
func WriteFile(filename string, data []byte, perm fs.FileMode) error {
	return simos.WriteFile(filename, data, perm)
}
func TempFile(dir, pattern string) (*simos.File, error) { return simos.CreateTemp(dir, pattern) }
func TempDir(dir, pattern string) (string, error)       { return simos.MkdirTemp(dir, pattern) }
