//go:build !race

package gsim

const RaceEnabled = false

func raceDisable() {}
func raceEnable()  {}
