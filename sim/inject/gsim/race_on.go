//go:build race

package gsim

import "runtime"

const RaceEnabled = true

func raceDisable() { runtime.RaceDisable() }
func raceEnable()  { runtime.RaceEnable() }
