// Package gsim is the run-time half of the simulator that is compiled together
// with the code gocc GENERATED (in a scratch module): the yield points the
// rewriter inserts call Yield; a seeded cooperative scheduler decides at every
// yield which client task runs next; the stack-capacity knob is read through
// Knob.  Exactly one task runs at any time.  All hand-offs between goroutines
// are hidden from the race detector (runtime.RaceDisable around the channel
// operations, //go:norace for the scheduler's own words), so that the detector
// still reports conflicting accesses of the generated code that have no
// happens-before relation OTHER than the one the serialising scheduler adds.
package gsim

import (
	"fmt"
	"runtime"
	"sync"
)

// Task is one simulated client.
type Task struct {
	ID     int
	Data   interface{} // owned by the harness (act session)
	Steps  int64       // yields executed by this task
	Budget int64       // > 0: panic(BudgetExceeded) when Steps exceeds it
	wake   chan struct{}
	done   bool
	InSite int  // site of the last yield (for coverage)
	spin   bool // the task yielded because it is waiting for a lock another task holds
}

type BudgetExceeded struct{ Steps int64 }

func (b BudgetExceeded) Error() string {
	return fmt.Sprintf("step budget exceeded after %d yields", b.Steps)
}

var (
	cur   *Task
	sched *Sched
	main0 = &Task{ID: -1}
	knobs map[string]int
)

func init() { cur = main0 }

// Cur returns the task the calling code belongs to.
//
//go:norace
func Cur() *Task {
	if freeMode {
		if t, ok := goTasks.Load(goid()); ok {
			return t.(*Task)
		}
		return main0
	}
	return cur
}

// ---- free mode (observation, not simulation) ----
//
// If the generated code starts goroutines of its own or uses channels, the
// cooperative scheduler cannot own every interleaving (a task blocked in a
// channel operation would block the only running goroutine).  Then tasks run as
// ordinary goroutines in parallel, Yield becomes an occasional runtime.Gosched,
// and the run is an observation under the race detector, labelled as such.

var (
	freeMode bool
	goTasks  sync.Map // goroutine id -> *Task
)

// FreeMode reports whether tasks currently run as real parallel goroutines.
//
//go:norace
func FreeMode() bool { return freeMode }

func goid() uint64 {
	var buf [64]byte
	n := runtime.Stack(buf[:], false)
	// "goroutine 123 [running]:"
	var id uint64
	for i := len("goroutine "); i < n && buf[i] >= '0' && buf[i] <= '9'; i++ {
		id = id*10 + uint64(buf[i]-'0')
	}
	return id
}

// RunFree runs the bodies as plain goroutines.
func RunFree(datas []interface{}, budget int64, bodies []func()) (panics []interface{}) {
	n := len(bodies)
	panics = make([]interface{}, n)
	freeMode = true
	var wg sync.WaitGroup
	start := make(chan struct{})
	for i := 0; i < n; i++ {
		t := &Task{ID: i, Data: datas[i], Budget: budget, InSite: -1}
		idx := i
		wg.Add(1)
		go func() {
			defer wg.Done()
			goTasks.Store(goid(), t)
			<-start
			defer func() {
				if r := recover(); r != nil {
					panics[idx] = r
				}
			}()
			bodies[idx]()
		}()
	}
	close(start)
	wg.Wait()
	freeMode = false
	goTasks.Range(func(k, v interface{}) bool { goTasks.Delete(k); return true })
	return panics
}

//go:norace
func setCur(t *Task) { cur = t }

//go:norace
func getSched() *Sched { return sched }

//go:norace
func setSched(s *Sched) { sched = s }

// SetMain installs the session object of the non-scheduled (main) task.
func SetMain(data interface{}, budget int64) *Task {
	main0.Data = data
	main0.Budget = budget
	main0.Steps = 0
	return main0
}

// Knob returns the override for a tuning constant of the generated code.
func Knob(name string, def int) int {
	if v, ok := knobs[name]; ok {
		return v
	}
	return def
}

// SetKnob must only be called while no task is running.
func SetKnob(name string, v int) {
	if knobs == nil {
		knobs = map[string]int{}
	}
	if v <= 0 {
		delete(knobs, name)
		return
	}
	knobs[name] = v
}

var totalYields int64

//go:norace
func countYield() { totalYields++ }

// TotalYields is the number of yields executed so far by all tasks.
//
//go:norace
func TotalYields() int64 { return totalYields }

// Yield is inserted at every function entry and loop head of generated code.
func Yield(site int) {
	t := Cur()
	if freeMode {
		if t == main0 {
			return // a goroutine the generated code started itself
		}
		t.Steps++
		if t.Budget > 0 && t.Steps > t.Budget {
			panic(BudgetExceeded{t.Steps})
		}
		if t.Steps%5 == 0 {
			runtime.Gosched()
		}
		return
	}
	countYield()
	t.Steps++
	t.InSite = site
	if t.Budget > 0 && t.Steps > t.Budget {
		panic(BudgetExceeded{t.Steps})
	}
	if s := getSched(); s != nil && t != main0 {
		s.yield(t)
	}
}

// YieldBlocked is called by the gsync wrappers while a task spins on a
// primitive held by another task: the scheduler must run somebody else.
func YieldBlocked() {
	t := Cur()
	if freeMode {
		runtime.Gosched()
		return
	}
	t.Steps++
	if t.Budget > 0 && t.Steps > t.Budget {
		panic(BudgetExceeded{t.Steps})
	}
	if s := getSched(); s != nil && t != main0 {
		setSpin(t)
		s.yield(t)
	}
}

//go:norace
func setSpin(t *Task) { t.spin = true }

// ---- scheduler ----

// Schedule is the plan of one scheduled run.
type Schedule struct {
	Policy   string   `json:"policy"`             // uniform | preempt | explicit
	Seed     uint64   `json:"seed,omitempty"`     // uniform
	Points   [][2]int `json:"points,omitempty"`   // preempt: at global step a, switch to task b
	Choices  []int    `json:"choices,omitempty"`  // explicit: task id per step (then lowest live id)
	Starve   int      `json:"starve,omitempty"`   // task id+1 that is never chosen while another is live (0: none)
	Permille [][2]int `json:"permille,omitempty"` // preempt: like Points, the step given in 1/1000 of the solo runs' total yields (resolved by the harness)
}

type Sched struct {
	plan     Schedule
	tasks    []*Task
	back     chan struct{}
	rng      uint64
	Trace    []int // task id per step
	SwitchAt []int // yield site at which the previously running task was parked when another task was chosen
	step     int
	points   map[int]int
}

func mix(x uint64) uint64 {
	x += 0x9e3779b97f4a7c15
	x = (x ^ (x >> 30)) * 0xbf58476d1ce4e5b9
	x = (x ^ (x >> 27)) * 0x94d049bb133111eb
	return x ^ (x >> 31)
}

//go:norace
func (s *Sched) yield(t *Task) {
	raceDisable()
	s.back <- struct{}{}
	<-t.wake
	raceEnable()
}

// Run executes the bodies as tasks under the schedule and returns when all are
// done.  Each body runs on its own goroutine; exactly one is runnable at a time.
// A panic escaping a body is caught and returned in panics[i].
func Run(plan Schedule, datas []interface{}, budget int64, bodies []func()) (s *Sched, panics []interface{}) {
	n := len(bodies)
	s = &Sched{plan: plan, back: make(chan struct{}), rng: mix(plan.Seed ^ 0x5ca1ab1e), points: map[int]int{}}
	for _, p := range plan.Points {
		s.points[p[0]] = p[1]
	}
	panics = make([]interface{}, n)
	done := make(chan struct{})
	var wg sync.WaitGroup
	wg.Add(n)
	for i := 0; i < n; i++ {
		t := &Task{ID: i, Data: datas[i], Budget: budget, wake: make(chan struct{}), InSite: -1}
		s.tasks = append(s.tasks, t)
	}
	for i := 0; i < n; i++ {
		t := s.tasks[i]
		body := bodies[i]
		idx := i
		go func() {
			raceDisable()
			<-t.wake
			raceEnable()
			func() {
				defer func() {
					if r := recover(); r != nil {
						panics[idx] = r
					}
				}()
				body()
			}()
			wg.Done() // visible edge: what the task wrote is ordered before Run returns
			finish(s, t)
		}()
	}
	go func() {
		s.loop()
		close(done)
	}()
	<-done
	wg.Wait()
	setSched(nil)
	setCur(main0)
	return s, panics
}

//go:norace
func finish(s *Sched, t *Task) {
	t.done = true
	raceDisable()
	s.back <- struct{}{}
	raceEnable()
}

//go:norace
func (s *Sched) live() []*Task {
	var l []*Task
	for _, t := range s.tasks {
		if !t.done {
			l = append(l, t)
		}
	}
	return l
}

//go:norace
func (s *Sched) loop() {
	setSched(s)
	var last *Task
	for {
		live := s.live()
		if len(live) == 0 {
			return
		}
		t := s.pick(live, last)
		s.Trace = append(s.Trace, t.ID)
		if last != nil && last != t && !last.done {
			s.SwitchAt = append(s.SwitchAt, last.InSite)
		}
		s.step++
		setCur(t)
		raceDisable()
		t.wake <- struct{}{}
		<-s.back
		raceEnable()
		last = t
	}
}

//go:norace
func (s *Sched) pick(live []*Task, last *Task) *Task {
	// a task spinning on a lock is not offered while anybody else can run
	var ready []*Task
	for _, t := range live {
		if !t.spin {
			ready = append(ready, t)
		}
	}
	for _, t := range live {
		t.spin = false
	}
	if len(ready) > 0 && len(ready) < len(live) {
		live = ready
		last = nil
	}
	cands := live
	if s.plan.Starve > 0 && len(live) > 1 {
		cands = nil
		for _, t := range live {
			if t.ID != s.plan.Starve-1 {
				cands = append(cands, t)
			}
		}
	}
	find := func(id int) *Task {
		for _, t := range cands {
			if t.ID == id {
				return t
			}
		}
		return nil
	}
	switch s.plan.Policy {
	case "uniform":
		s.rng = mix(s.rng)
		return cands[int(s.rng%uint64(len(cands)))]
	case "explicit":
		if s.step < len(s.plan.Choices) {
			if t := find(s.plan.Choices[s.step]); t != nil {
				return t
			}
		}
	case "preempt":
		if id, ok := s.points[s.step]; ok {
			if t := find(id); t != nil {
				return t
			}
		}
	}
	// default: keep running the last task, else the lowest live id
	if last != nil && !last.done {
		if t := find(last.ID); t != nil {
			return t
		}
	}
	return cands[0]
}
