package gsim
