package harness
