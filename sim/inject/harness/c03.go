package harness

import (
	"fmt"
	"strings"

	"verifsim/inject/act"
	"verifsim/inject/gsim"
)

// runC03: fault-free baseline against the derivation's expectation, then the
// enumeration "the k-th action call returns an error" for every listed k.
func runC03(g Glue, j *Job, res *JobResult) {
	e := &env{g: g, tokMethods: j.TokMethods}
	sess := &act.Session{}
	gsim.SetMain(sess, j.Budget)
	ctx := ctxOf(3)
	var shared Parser
	fresh := func() (Parser, Lexer) {
		// Reuse: one parser object serves the baseline, every faulted parse and the
		// final fault-free parse (Parse must not depend on what came before).
		if j.Reuse && shared != nil {
			return shared, e.newLexFor(j.In, nil)
		}
		p := g.NewParser()
		p.SetContext(ctx)
		sess.Ctx = ctx
		if j.Reuse {
			shared = p
		}
		return p, e.newLexFor(j.In, nil)
	}
	viol := func(class string, at int, format string, args ...interface{}) {
		res.Violations = append(res.Violations, Viol{Class: class, At: at, Detail: fmt.Sprintf(format, args...)})
	}
	var dg uint64 = 14695981039346656037

	if j.NoExpect {
		p, l := fresh()
		o := e.runParse(p, l, j.In, nil, sess, nil)
		res.Evals++
		dg = digestAdd(dg, o.String())
		if o.Panic == "" && o.ErrNil {
			res.Stats["recovered-parse-judged"]++
			for _, l := range o.Log {
				if strings.Contains(l, "E{") && !strings.Contains(l, "symbols=[]") {
					res.Stats["recovered-after-discarding-symbols"]++
					break
				}
			}
			if len(o.Problems) > 0 {
				viol("attribute-identity", 0, "Parse succeeded (after error recovery) but %s", strings.Join(o.Problems, "; "))
			}
		}
		res.Digest = fmt.Sprintf("%016x", dg)
		return
	}
	// --- fault-free configuration ---
	p, l := fresh()
	var usage *Fault
	if j.CtxSwap > 0 || j.MutateToks || j.NestAt > 0 {
		usage = &Fault{CtxSwapAt: j.CtxSwap, MutateToks: j.MutateToks, NestAt: j.NestAt, NestIn: j.NestIn, NestExpect: j.NestExpect}
	}
	base := e.runParse(p, l, j.In, usage, sess, nil)
	res.Evals++
	dg = digestAdd(dg, base.String())
	switch {
	case base.Panic != "":
		viol("valid-sentence-rejected", 0, "Parse panicked on a sentence produced by derivation: %s", base.Panic)
		res.Digest = fmt.Sprintf("%016x", dg)
		return
	case !base.ErrNil:
		viol("valid-sentence-rejected", 0, "Parse returned an error on a sentence produced by derivation: %s", base.ErrText)
		res.Digest = fmt.Sprintf("%016x", dg)
		return
	}
	if len(base.Problems) > 0 {
		viol("attribute-identity", 0, "%s", strings.Join(base.Problems, "; "))
	}
	if d := diffLogs(j.ExpectLog, base.Log); d != "" {
		viol("action-sequence", 0, "action calls differ from the post-order evaluation of the parse tree: %s", d)
	}
	if base.Result != j.ExpectResult {
		viol("result-value", 0, "Parse returned %s, post-order evaluation gives %s", clip(base.Result), clip(j.ExpectResult))
	}
	if len(res.Violations) > 0 {
		res.Digest = fmt.Sprintf("%016x", dg)
		return
	}
	res.Stats["actions"] = len(base.Log)

	// --- fault configuration: k-th action call fails ---
	kinds := j.FaultKinds
	if len(kinds) == 0 {
		kinds = []string{act.FaultError}
	}
	for _, k := range j.FaultCalls {
		if k < 1 || k > len(base.Log) {
			continue
		}
		for _, kind := range kinds {
			p, l := fresh()
			o := e.runParse(p, l, j.In, &Fault{ActionCall: k, Kind: kind, CtxSwapAt: j.CtxSwap, MutateToks: j.MutateToks, NestAt: j.NestAt, NestIn: j.NestIn, NestExpect: j.NestExpect}, sess, nil)
			res.Evals++
			res.Stats["fault-"+kind+"-fired"]++
			dg = digestAdd(dg, o.String())
			if !o.FaultHit {
				viol("fault-not-reached", k, "action call %d never happened although the fault-free run has %d calls", k, len(base.Log))
				continue
			}
			if kind == act.FaultPanic {
				// a panic is not part of the statement; only "no further action" is checked
				if o.After > 0 {
					viol("action-after-failure", k, "%d action call(s) ran after call %d panicked", o.After, k)
				}
				continue
			}
			if o.Panic != "" {
				viol("error-not-returned", k, "action call %d returned an error and Parse panicked: %s", k, o.Panic)
				continue
			}
			if o.ErrNil {
				viol("error-not-returned", k, "action call %d of %d returned an error but Parse returned a nil error (result %s)", k, len(base.Log), clip(o.Result))
			} else if !o.Carries {
				viol("error-not-carried", k, "action call %d returned %q; Parse's error does not carry it: %s", k, sess.Fault.Tag, clip(o.ErrText))
			}
			if o.After > 0 || len(o.Log) != k {
				viol("action-after-failure", k, "action call %d returned an error; %d call(s) were made in total (%d after the failure)", k, len(o.Log), o.After)
			}
			if d := diffLogs(base.Log[:min(k, len(base.Log))], o.Log[:min(k, len(o.Log))]); d != "" {
				viol("action-sequence", k, "calls before the failing one differ from the fault-free run: %s", d)
			}
		}
	}
	if j.Reuse {
		// after all the aborted parses the same object must still evaluate the sentence correctly
		p, l := fresh()
		o := e.runParse(p, l, j.In, usage, sess, nil)
		res.Evals++
		res.Stats["reused-parser-final-parse"]++
		switch {
		case o.Panic != "" || !o.ErrNil:
			viol("valid-sentence-rejected", 0, "a parser reused after %d aborted parses rejects the sentence: %s%s", len(j.FaultCalls), o.Panic, o.ErrText)
		case o.Result != j.ExpectResult:
			viol("result-value", 0, "a parser reused after %d aborted parses returned %s, post-order evaluation gives %s", len(j.FaultCalls), clip(o.Result), clip(j.ExpectResult))
		default:
			if d := diffLogs(j.ExpectLog, o.Log); d != "" {
				viol("action-sequence", 0, "on a parser reused after %d aborted parses: %s", len(j.FaultCalls), d)
			}
		}
	}
	res.Digest = fmt.Sprintf("%016x", dg)
}

func min(a, b int) int {
	if a < b {
		return a
	}
	return b
}

func clip(s string) string {
	if len(s) > 300 {
		return s[:300] + "..."
	}
	return s
}

func diffLogs(want, got []string) string {
	n := len(want)
	if len(got) < n {
		n = len(got)
	}
	for i := 0; i < n; i++ {
		if want[i] != got[i] {
			return fmt.Sprintf("call %d: expected %s, observed %s", i+1, clip(want[i]), clip(got[i]))
		}
	}
	if len(want) != len(got) {
		extra := ""
		if len(got) > len(want) {
			extra = " first extra: " + clip(got[len(want)])
		} else {
			extra = " first missing: " + clip(want[len(got)])
		}
		return fmt.Sprintf("expected %d calls, observed %d;%s", len(want), len(got), extra)
	}
	return ""
}
