package harness

import (
	"fmt"
	"strings"

	"verifsim/inject/act"
	"verifsim/inject/gsim"
)

// objects is the set of long-lived objects one client owns.
type objects struct {
	p     Parser
	pctx  interface{}
	l     Lexer
	lsrc  string
	lctx  interface{}
	lfile bool
	lbuf  []byte // the used lexer's source buffer (nil for file-backed lexers)
	lset  bool   // SetContext was called on the lexer since it was created (possibly with nil)
	usedP bool
	cache tokCache
	kept  []keptResult // what the used parser returned, to be looked at again when the history is over
}

type keptResult struct {
	at   int
	out  *Outcome
	then string
}

// execOps runs a history on objs.  For every observing operation it returns
// one rendered observation; when fresh is true each operation runs on newly
// created objects instead (the reference).  The session is the one of the
// task that is running.
//
// Per operation the used object and a fresh object are BOTH exercised by
// runC16 (see below); execOps itself only knows one mode so that C17 can run
// the same history alone and under the scheduler.
func (e *env) execOps(ops []Op, o *objects, sess *act.Session, budget int64, perOp func(i int, used, fresh string)) []string {
	var obs []string
	note := func(i int, used, fresh string) {
		obs = append(obs, used)
		if perOp != nil {
			perOp(i, used, fresh)
		}
	}
	for i := range ops {
		op := &ops[i]
		gsim.Cur().Steps = 0 // the step budget is per operation
		switch op.Op {
		case "parse":
			if o.p == nil {
				continue
			}
			sess.Ctx = o.pctx
			u := e.runParse(o.p, e.newLexFor(op.In, nil), op.In, op.Fault, sess, o.cache)
			o.usedP = true
			if perOp != nil && u.Panic == "" {
				o.kept = append(o.kept, keptResult{at: i, out: u, then: e.again(u, sess)})
			}
			var f string
			if perOp != nil {
				pf := e.g.NewParser()
				pf.SetContext(o.pctx)
				f = e.runParse(pf, e.newLexFor(op.In, nil), op.In, op.Fault, sess, o.cache).String()
			}
			note(i, u.String(), f)
		case "preset":
			if o.p != nil {
				o.p.Reset()
			}
		case "pctx":
			if o.p != nil {
				o.pctx = ctxOf(op.Ctx)
				o.p.SetContext(o.pctx)
			}
		case "lexnew":
			if !e.g.HasLexer() {
				continue
			}
			o.lbuf = nil
			if op.In.FromFile {
				o.l = e.lexerFor(op.In.Text, true)
			} else {
				o.lbuf = newGuardedSrc(op.In.Text)
				o.l = e.g.NewLexer(o.lbuf)
			}
			o.lsrc = op.In.Text
			o.lfile = op.In.FromFile
			o.lctx = nil
			o.lset = false
		case "lexrefill":
			// the caller refills the SAME buffer with other text of the same length and
			// rewinds the lexer (a reused read buffer)
			if o.l == nil || o.lfile || o.lbuf == nil {
				continue
			}
			nt := []byte(op.In.Text)
			for i := range o.lbuf {
				if i < len(nt) {
					o.lbuf[i] = nt[i]
				} else {
					o.lbuf[i] = ' '
				}
			}
			o.lsrc = string(o.lbuf)
		case "lexscan":
			if o.l == nil {
				continue
			}
			guard(func() {
				for k := 0; k < op.N; k++ {
					o.l.Scan()
				}
			})
		case "lexctx":
			if o.l != nil {
				o.lctx = ctxOf(op.Ctx)
				o.lset = true
				o.l.SetContext(o.lctx)
			}
		case "lexreset":
			if o.l == nil {
				continue
			}
			o.l.Reset()
			var u, f string
			if d := guard(func() { u = strings.Join(e.scanAll(o.l, len(o.lsrc)+4), " ") }); d != "" {
				u = d
			}
			if perOp != nil {
				lf := e.lexerFor(o.lsrc, o.lfile)
				if o.lset {
					lf.SetContext(o.lctx)
				}
				gsim.Cur().Steps = 0
				if d := guard(func() { f = strings.Join(e.scanAll(lf, len(o.lsrc)+4), " ") }); d != "" {
					f = d
				}
			}
			note(i, "tokens: "+u, "tokens: "+f)
		case "parselex":
			if o.l == nil || o.p == nil {
				continue
			}
			o.l.Reset()
			in := &Input{Text: o.lsrc}
			sess.Ctx = o.pctx
			u := e.runParse(o.p, o.l, in, op.Fault, sess, nil)
			if perOp != nil && u.Panic == "" {
				o.kept = append(o.kept, keptResult{at: i, out: u, then: e.again(u, sess)})
			}
			var f string
			if perOp != nil {
				pf := e.g.NewParser()
				pf.SetContext(o.pctx)
				lf := e.lexerFor(o.lsrc, o.lfile)
				if o.lset {
					lf.SetContext(o.lctx)
				}
				f = e.runParse(pf, lf, in, op.Fault, sess, nil).String()
			}
			note(i, u.String(), f)
		}
	}
	return obs
}

func (e *env) newObjects() *objects {
	o := &objects{cache: tokCache{}}
	if e.g.HasParser() {
		o.p = e.g.NewParser()
	}
	return o
}

// runC16: one history on one parser and one lexer; after every Parse (and every
// lexer Reset) the same call is made on fresh objects and must look the same.
func runC16(g Glue, j *Job, res *JobResult) {
	e := &env{g: g, full: true, tokMethods: true}
	sess := &act.Session{}
	gsim.SetMain(sess, j.Budget)
	o := e.newObjects()
	var dg uint64 = 14695981039346656037
	abnormalBefore := false
	e.execOps(j.Ops, o, sess, j.Budget, func(i int, used, fresh string) {
		res.Evals++
		dg = digestAdd(dg, used)
		op := j.Ops[i]
		if abnormalBefore {
			res.Stats["observed-after-abnormal-exit"]++
		}
		if strings.Contains(used, `"err_nil":false`) || strings.Contains(used, `"panic":`) {
			abnormalBefore = true
			res.Stats["abnormal-exits"]++
		}
		if strings.Contains(used, "E{err=") && strings.Contains(used, `"err_nil":true`) {
			res.Stats["recovered-parses"]++
		}
		if used != fresh {
			class := "history-dependent-parse"
			if op.Op == "lexreset" {
				class = "lexer-reset"
			}
			res.Violations = append(res.Violations, Viol{Class: class, At: i,
				Detail: fmt.Sprintf("operation %d (%s) on the used object differs from the same call on a fresh object: %s", i, op.Op, firstDiff(used, fresh))})
		}
	})
	// What a Parse returned must still be what it returned when the history is over:
	// a fresh parser's result is never touched again, so a result that a LATER Parse
	// on the same object rewrites is a result that depends on the history.  (Not
	// judged where the harness itself changes the objects afterwards: a refilled
	// source buffer, tokens modified in place by a later action.)
	lastWrite := -1
	for i := range j.Ops {
		if j.Ops[i].Op == "lexrefill" || j.Ops[i].Fault != nil && j.Ops[i].Fault.MutateToks {
			lastWrite = i
		}
	}
	for _, k := range o.kept {
		if k.at <= lastWrite {
			continue
		}
		res.Stats["results-looked-at-again"]++
		gsim.Cur().Steps = 0
		var now string
		if d := guard(func() { now = e.again(k.out, sess) }); d != "" {
			now = d
		}
		if now != k.then {
			res.Violations = append(res.Violations, Viol{Class: "earlier-result-rewritten", At: k.at,
				Detail: fmt.Sprintf("what operation %d (%s) returned has been modified by the time the history is over (a later call on the same parser wrote into it): %s", k.at, j.Ops[k.at].Op, firstDiff(now, k.then))})
		}
	}
	res.Stats["ops"] = len(j.Ops)
	res.Digest = fmt.Sprintf("%016x", dg)
}

func firstDiff(a, b string) string {
	n := len(a)
	if len(b) < n {
		n = len(b)
	}
	i := 0
	for i < n && a[i] == b[i] {
		i++
	}
	lo := i - 80
	if lo < 0 {
		lo = 0
	}
	cut := func(s string) string {
		hi := i + 160
		if hi > len(s) {
			hi = len(s)
		}
		if lo > len(s) {
			return ""
		}
		return s[lo:hi]
	}
	return fmt.Sprintf("used: ...%s... fresh: ...%s...", cut(a), cut(b))
}

// guard runs f and turns a panic out of generated code (or the step budget)
// into an observation instead of a harness failure.
func guard(f func()) (panicked string) {
	defer func() {
		if r := recover(); r != nil {
			if _, ok := r.(gsim.BudgetExceeded); ok {
				panicked = "step budget exceeded"
				return
			}
			panicked = fmt.Sprintf("panic: %v", r)
		}
	}()
	f()
	return ""
}
