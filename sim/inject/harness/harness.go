// Package harness is the driver logic compiled (in a scratch module) together
// with the code gocc generated for one workload grammar.  It executes jobs
// (plans) handed to it as JSON and judges them in-process: C03 (post-order
// evaluation, action-fault enumeration), C16 (used object vs fresh object over
// a history of operations), C17 (tasks under the seeded cooperative scheduler
// vs the same tasks alone).  All choices are in the job; nothing is drawn here.
package harness

import (
	"encoding/json"
	"errors"
	"fmt"
	"os"
	"strconv"
	"strings"

	"verifsim/inject/act"
	"verifsim/inject/gsim"
)

// ---- what the per-grammar glue provides ----

type Lexer interface {
	Scan() interface{}
	Reset()
	SetContext(c interface{})
}

type Parser interface {
	Parse(next func() interface{}) (interface{}, error)
	Reset()
	SetContext(c interface{})
}

type TokInfo struct {
	Type   int
	Name   string
	Lit    string
	Offset int
	Line   int
	Column int
	Ctx    interface{}
}

type ErrInfo struct {
	Err      error
	Token    interface{}
	Expected []string
	Symbols  []interface{}
	StackTop int
}

type Glue interface {
	HasLexer() bool
	HasParser() bool
	NewLexer(src []byte) Lexer
	NewLexerFile(path string) (Lexer, error)
	NewParser() Parser
	MakeToken(name, lit string, off, line, col int) interface{}
	MutateToken(x interface{})
	Shapes() map[int][]string        // per act.N label: what each argument must be (see corpus.Shapes)
	TokMethods(x interface{}) string // calls the token's convenience methods; what they returned, rendered
	TokInfo(x interface{}) (TokInfo, bool)
	ErrInfo(x interface{}) (ErrInfo, bool)
}

// ---- jobs ----

type TokSpec struct {
	Name string `json:"name"`
	Lit  string `json:"lit"`
	Off  int    `json:"off"`
}

type Input struct {
	Text      string    `json:"text,omitempty"`
	Tokens    []TokSpec `json:"tokens,omitempty"`
	UseTokens bool      `json:"use_tokens,omitempty"`
	Label     string    `json:"label,omitempty"`     // valid | bad | recover | deep (informational)
	FromFile  bool      `json:"from_file,omitempty"` // the lexer is created with NewLexerFile on a file holding Text
	Spelling  int       `json:"spelling,omitempty"`  // which of several equivalent spellings of the file's path is used (dir/f, dir/./f, dir//f)
	Cache     bool      `json:"cache,omitempty"`     // the scanner hands out the SAME token objects every time this input is parsed by this client (a replaying scanner)
}

type Fault struct {
	CtxSwapAt  int    `json:"ctx_swap_at,omitempty"`   // not a fault: the action at/after this $Context-using call replaces the parser's Context
	MutateToks bool   `json:"mutate_tokens,omitempty"` // not a fault: actions modify the token objects they are given (after logging them)
	NestAt     int    `json:"nest_at,omitempty"`       // not a fault: the action at this call parses NestIn with a helper parser of the same package
	NestIn     *Input `json:"nest_in,omitempty"`
	NestExpect string `json:"nest_expect,omitempty"` // what the helper parse must return
	ActionCall int    `json:"action_call,omitempty"`
	Kind       string `json:"kind,omitempty"` // error | panic
	ScanPanic  int    `json:"scan_panic,omitempty"`
}

type Op struct {
	Op    string `json:"op"` // parse | preset | pctx | lexnew | lexscan | lexreset | lexctx | parselex
	In    *Input `json:"in,omitempty"`
	Fault *Fault `json:"fault,omitempty"`
	Ctx   int    `json:"ctx,omitempty"`
	N     int    `json:"n,omitempty"`
}

type TaskSpec struct {
	Ops []Op `json:"ops"`
}

type Job struct {
	ID           int           `json:"id"`
	Kind         string        `json:"kind"`
	Variant      string        `json:"variant"`
	Knob         int           `json:"knob,omitempty"`
	Budget       int64         `json:"budget,omitempty"`
	In           *Input        `json:"in,omitempty"`
	ExpectLog    []string      `json:"expect_log,omitempty"`
	ExpectResult string        `json:"expect_result,omitempty"`
	FaultCalls   []int         `json:"fault_calls,omitempty"`
	FaultKinds   []string      `json:"fault_kinds,omitempty"`
	Ops          []Op          `json:"ops,omitempty"`
	Tasks        []TaskSpec    `json:"tasks,omitempty"`
	Free         bool          `json:"free,omitempty"`          // c17: tasks run as real parallel goroutines (observation; used when generated code has goroutines/channels of its own)
	Cold         bool          `json:"cold,omitempty"`          // c17: the scheduled run is the first thing this process does with the generated code (no solo run before it)
	Reuse        bool          `json:"reuse,omitempty"`         // c03: one parser object serves the whole enumeration
	CtxSwap      int           `json:"ctx_swap,omitempty"`      // c03: actions replace the parser's Context from this $Context-using call on
	MutateToks   bool          `json:"mutate_tokens,omitempty"` // c03: actions modify the tokens they are given
	NestAt       int           `json:"nest_at,omitempty"`       // c03: the action at this call runs a helper parser over NestIn
	NestIn       *Input        `json:"nest_in,omitempty"`
	NestExpect   string        `json:"nest_expect,omitempty"`
	TokMethods   bool          `json:"tok_methods,omitempty"` // c03: actions call the tokens' convenience methods
	NoExpect     bool          `json:"no_expect,omitempty"`   // c03: an input that is not a sentence: if Parse nevertheless succeeds (error recovery), only the attribute-identity clauses are judged
	Schedule     gsim.Schedule `json:"schedule,omitempty"`
}

type Viol struct {
	Class  string `json:"class"`
	Detail string `json:"detail"`
	At     int    `json:"at"` // fault index k / op index / task
}

type JobResult struct {
	ID         int            `json:"id"`
	Evals      int            `json:"evals"`
	Violations []Viol         `json:"violations,omitempty"`
	Stats      map[string]int `json:"stats,omitempty"`
	TraceHash  string         `json:"trace_hash,omitempty"`
	Steps      int            `json:"steps,omitempty"`
	Switches   int            `json:"switches,omitempty"`
	SwitchAt   []int          `json:"switch_at,omitempty"` // yield sites at which a task was parked when another was chosen
	Race       bool           `json:"race,omitempty"`
	RaceText   string         `json:"race_text,omitempty"`
	Harness    string         `json:"harness_error,omitempty"`
	Digest     string         `json:"digest,omitempty"`      // hash of every outcome observed (determinism self-test)
	TaskDigest []string       `json:"task_digest,omitempty"` // c17: per task, hash of what it observed under the schedule
}

// ---- context objects ----

type CtxObj struct{ ID int }

func (c *CtxObj) String() string { return "ctx" + strconv.Itoa(c.ID) }

var ctxObjs = func() []*CtxObj {
	var out []*CtxObj
	for i := 0; i < 8; i++ {
		out = append(out, &CtxObj{ID: i})
	}
	return out
}()

func ctxOf(i int) interface{} {
	if i <= 0 {
		return nil
	}
	return ctxObjs[i%len(ctxObjs)]
}

// ---- rendering ----

type env struct {
	g          Glue
	full       bool              // include line/column/context in token renderings
	tokMethods bool              // actions call the convenience methods of the tokens they receive
	shared     map[string][]byte // c17: texts that several tasks lex are ONE buffer shared by them (lexers only read their source); filled before the tasks start, read-only afterwards
}

func (e *env) renderTok(ti TokInfo) string {
	s := "T<" + ti.Name + ">" + strconv.Quote(ti.Lit) + "@" + strconv.Itoa(ti.Offset)
	if e.full {
		s += ":" + strconv.Itoa(ti.Line) + ":" + strconv.Itoa(ti.Column)
		if ti.Ctx != nil {
			s += fmt.Sprintf("/%v", ti.Ctx)
		}
	}
	return s
}

func (e *env) render(sess *act.Session) func(x interface{}) (string, bool) {
	var r func(x interface{}) (string, bool)
	r = func(x interface{}) (string, bool) {
		if ti, ok := e.g.TokInfo(x); ok {
			return e.renderTok(ti), true
		}
		if ei, ok := e.g.ErrInfo(x); ok {
			return e.renderErr(ei, sess), true
		}
		return "", false
	}
	return r
}

func (e *env) renderErr(ei ErrInfo, sess *act.Session) string {
	var b strings.Builder
	b.WriteString("E{err=")
	switch v := ei.Err.(type) {
	case nil:
		b.WriteString("nil")
	case *act.Injected:
		b.WriteString("injected:" + v.Tag)
	default:
		b.WriteString("other:" + v.Error())
	}
	b.WriteString(" tok=")
	if ei.Token == nil {
		b.WriteString("nil")
	} else if ti, ok := e.g.TokInfo(ei.Token); ok {
		b.WriteString(e.renderTok(ti))
	}
	b.WriteString(" expected=[" + strings.Join(ei.Expected, " ") + "]")
	b.WriteString(" symbols=[")
	for i, s := range ei.Symbols {
		if i > 0 {
			b.WriteString(" ")
		}
		b.WriteString(sess.RenderVal(s))
	}
	b.WriteString("] top=" + strconv.Itoa(ei.StackTop) + "}")
	return b.String()
}

// ---- one parse, fully observed ----

type Outcome struct {
	Result   string   `json:"result"`
	ErrNil   bool     `json:"err_nil"`
	ErrText  string   `json:"err_text,omitempty"`
	ErrInfo  string   `json:"err_info,omitempty"`
	Log      []string `json:"log"`
	Scans    int      `json:"scans"`
	Panic    string   `json:"panic,omitempty"`
	Problems []string `json:"problems,omitempty"`
	Diverged bool     `json:"diverged,omitempty"`
	Methods  string   `json:"methods,omitempty"` // digest of what the tokens' convenience methods returned, call by call
	Carries  bool     `json:"-"`                 // the returned error carries the injected value
	After    int      `json:"-"`
	FaultHit bool     `json:"-"`
	res      interface{}
	err      error
}

// again renders what Parse returned once more, from the objects themselves
// (every node from the values it holds): the text changes if and only if
// something reachable from the result was modified since.
func (e *env) again(o *Outcome, sess *act.Session) string {
	saved := sess.Render
	sess.Render = e.render(sess)
	sess.Deep = true
	defer func() { sess.Deep = false; sess.Render = saved }()
	s := sess.RenderVal(o.res)
	if o.err != nil {
		s += " / " + safeErrorText(o.err)
		if ei, ok := e.g.ErrInfo(o.err); ok {
			s += " / " + e.renderErr(ei, sess)
		}
	}
	return s
}

func (o *Outcome) String() string {
	b, _ := json.Marshal(o)
	return string(b)
}

type scanPanic struct{ at int }

// tokCache holds, per client, the token objects already handed out for an
// input that asks for a replaying scanner.
type tokCache map[string][]interface{}

// tokenSource returns the next() function feeding a parser.
func (e *env) tokenSource(in *Input, lex Lexer, sess *act.Session, scans *int, scanPanicAt int, cache tokCache) func() interface{} {
	i := 0
	key := ""
	var replay []interface{}
	if in.Cache && cache != nil {
		key = in.Text + "\x00" + fmt.Sprint(in.UseTokens)
		replay = cache[key]
	}
	produce := func() interface{} {
		if lex != nil {
			return lex.Scan()
		}
		if i < len(in.Tokens) {
			t := in.Tokens[i]
			i++
			return e.g.MakeToken(t.Name, t.Lit, t.Off, 1, t.Off+1)
		}
		off := 0
		if n := len(in.Tokens); n > 0 {
			off = in.Tokens[n-1].Off + len(in.Tokens[n-1].Lit)
		}
		return e.g.MakeToken("$EOF", "", off, 1, off+1)
	}
	_ = replay
	return func() interface{} {
		*scans++
		if scanPanicAt > 0 && *scans == scanPanicAt {
			panic(scanPanic{at: *scans})
		}
		tok := produce() // the underlying source always advances
		if key != "" {
			if have := cache[key]; *scans <= len(have) {
				tok = have[*scans-1] // replaying scanner: the very object handed out last time
			} else {
				cache[key] = append(have, tok)
			}
		}
		sess.Handed[tok] = true
		return tok
	}
}

// runParse performs p.Parse over the input and records everything observable.
func (e *env) runParse(p Parser, lex Lexer, in *Input, f *Fault, sess *act.Session, cache tokCache) (out *Outcome) {
	out = &Outcome{}
	fc, fk, sp := 0, "", 0
	if f != nil {
		fc, fk, sp = f.ActionCall, f.Kind, f.ScanPanic
	}
	sess.Begin(fc, fk)
	sess.Render = e.render(sess)
	sess.Shapes = e.g.Shapes()
	savedCtx := sess.Ctx
	if f != nil && f.CtxSwapAt > 0 {
		sess.SwapAt = f.CtxSwapAt
		sess.SetCtx = p.SetContext
		sess.NextCtx = func(cur interface{}) interface{} {
			if c, ok := cur.(*CtxObj); ok {
				return ctxOf(c.ID%7 + 1)
			}
			return ctxOf(5)
		}
	}
	if f != nil && f.MutateToks {
		sess.Mutate = e.g.MutateToken
	}
	if e.tokMethods {
		sess.TokMethods = e.g.TokMethods
	}
	if f != nil && f.NestAt > 0 && f.NestIn != nil {
		sess.NestAt = f.NestAt
		sess.Nested = func() {
			// a helper parser of the same generated package, run to completion inside the action
			t := gsim.Cur()
			savedData, savedSteps := t.Data, t.Steps
			inner := &act.Session{TaskID: sess.TaskID}
			t.Data = inner
			o := e.runParse(e.g.NewParser(), e.newLexFor(f.NestIn, nil), f.NestIn, nil, inner, nil)
			t.Data, t.Steps = savedData, savedSteps
			if o.Panic != "" || !o.ErrNil || o.Result != f.NestExpect {
				sess.Problems = append(sess.Problems, "a helper parser run inside an action returned "+clipS(o.Result+" "+o.ErrText+" "+o.Panic)+" instead of "+clipS(f.NestExpect))
			}
		}
	}
	defer func() {
		// the swap is part of this call only: put the parser's Context back
		if f != nil && f.CtxSwapAt > 0 {
			p.SetContext(savedCtx)
			sess.Ctx = savedCtx
		}
	}()
	gsim.Cur().Steps = 0
	scans := 0
	next := e.tokenSource(in, lex, sess, &scans, sp, cache)
	func() {
		defer func() {
			if r := recover(); r != nil {
				switch v := r.(type) {
				case gsim.BudgetExceeded:
					out.Diverged = true
					out.Panic = "step budget exceeded"
				case *act.Injected:
					out.Panic = "injected:" + v.Tag
				case scanPanic:
					out.Panic = "scanner-panic@" + strconv.Itoa(v.at)
				case error:
					out.Panic = "runtime:" + v.Error()
				default:
					out.Panic = fmt.Sprintf("panic:%v", v)
				}
			}
		}()
		res, err := p.Parse(next)
		out.res, out.err = res, err
		out.Result = sess.RenderVal(res)
		out.ErrNil = err == nil
		if err != nil {
			out.ErrText = safeErrorText(err)
			if ei, ok := e.g.ErrInfo(err); ok {
				out.ErrInfo = e.renderErr(ei, sess)
				if sess.Fault != nil && ei.Err == error(sess.Fault) {
					out.Carries = true
				}
			}
			if sess.Fault != nil && !out.Carries {
				if errors.Is(err, sess.Fault) || strings.Contains(out.ErrText, sess.Fault.Tag) {
					out.Carries = true
				}
			}
		}
	}()
	out.Log = append([]string(nil), sess.Log...)
	if sess.MethodCalls > 0 {
		out.Methods = fmt.Sprintf("%d:%016x", sess.MethodCalls, sess.MethodDigest)
	}
	out.Scans = scans
	out.Problems = append([]string(nil), sess.Problems...)
	out.After = sess.AfterFault
	out.FaultHit = sess.Fault != nil
	return out
}

func safeErrorText(err error) (s string) {
	defer func() {
		if r := recover(); r != nil {
			s = fmt.Sprintf("<Error() panicked: %v>", r)
		}
	}()
	return err.Error()
}

// newLexFor creates the lexer for an input (nil when the input is a token list).
func (e *env) newLexFor(in *Input, ctx interface{}) Lexer {
	if in.UseTokens || !e.g.HasLexer() {
		return nil
	}
	l := e.lexerForSp(in.Text, in.FromFile, in.Spelling)
	if ctx != nil {
		l.SetContext(ctx)
	}
	return l
}

// lexerFor creates a lexer over text, through NewLexerFile if asked to.  The file
// name is a function of the text, so a used and a fresh lexer see the same path.
func (e *env) lexerFor(text string, fromFile bool) Lexer { return e.lexerForSp(text, fromFile, 0) }

// guarded source buffers: the lexer gets buf[:n] of a buffer that continues with
// guard bytes it does not own (cap > len, as with any sub-slice of a larger
// buffer).  Nothing may ever write there.
const guardLen = 24

type guarded struct {
	buf []byte
	n   int
}

// The table of guarded buffers is written by whichever task is running (exactly
// one at a time under the cooperative scheduler).  It is kept out of the race
// detector's sight (no instrumentation, no synchronisation that would order the
// tasks): a fixed array and a plain counter in //go:norace functions.
var (
	guardTab [1 << 14]guarded
	guardN   int
)

//go:norace
func recordGuard(g guarded) {
	if guardN < len(guardTab) {
		guardTab[guardN] = g
		guardN++
	}
}

//go:norace
func takeGuards() []guarded {
	out := append([]guarded(nil), guardTab[:guardN]...)
	for i := 0; i < guardN; i++ {
		guardTab[i] = guarded{}
	}
	guardN = 0
	return out
}

func newGuardedSrc(text string) []byte {
	if gsim.FreeMode() {
		return []byte(text) // the guard table is not safe for really parallel tasks
	}
	buf := make([]byte, len(text)+guardLen)
	copy(buf, text)
	for i := len(text); i < len(buf); i++ {
		buf[i] = 0xEE
	}
	recordGuard(guarded{buf, len(text)})
	return buf[:len(text)]
}

// guardsIntact reports the first guard that was written to, and forgets the buffers.
func guardsIntact() string {
	for _, g := range takeGuards() {
		for i := g.n; i < len(g.buf); i++ {
			if g.buf[i] != 0xEE {
				return fmt.Sprintf("the generated code wrote byte %#x at offset %d of a %d-byte source buffer, i.e. beyond the slice it was given", g.buf[i], i, g.n)
			}
		}
	}
	return ""
}

func (e *env) lexerForSp(text string, fromFile bool, spelling int) Lexer {
	if !fromFile {
		if buf, ok := e.shared[text]; ok {
			return e.g.NewLexer(buf)
		}
		return e.g.NewLexer(newGuardedSrc(text))
	}
	dir := os.Getenv("VERIF_SRCDIR")
	if dir == "" {
		dir = os.TempDir()
	}
	h := digestAdd(14695981039346656037, text)
	path := dir + []string{"/", "/./", "//"}[spelling%3] + "src-" + strconv.FormatUint(h, 16) + ".txt"
	if _, err := os.Stat(path); err != nil {
		// several driver processes share this directory: the file must appear atomically
		// (write a private temporary, then rename), never be seen half-written
		tmp := dir + "/.tmp-" + strconv.Itoa(os.Getpid()) + "-" + strconv.FormatUint(h, 16)
		if err := os.WriteFile(tmp, []byte(text), 0o644); err != nil {
			panic("harness: cannot write source file: " + err.Error())
		}
		if err := os.Rename(tmp, dir+"/src-"+strconv.FormatUint(h, 16)+".txt"); err != nil {
			panic("harness: cannot publish source file: " + err.Error())
		}
	}
	l, err := e.g.NewLexerFile(path)
	if err != nil || l == nil {
		panic(fmt.Sprintf("harness: NewLexerFile(%s): %v", path, err))
	}
	return l
}

// scanAll renders the complete remaining token stream of a lexer.
func (e *env) scanAll(l Lexer, limit int) []string {
	var out []string
	for i := 0; i < limit; i++ {
		t := l.Scan()
		ti, ok := e.g.TokInfo(t)
		if !ok {
			out = append(out, fmt.Sprintf("?%T", t))
			break
		}
		out = append(out, e.renderTok(ti))
		if ti.Name == "␚" || ti.Type == 1 {
			break
		}
	}
	return out
}

func digestAdd(h uint64, s string) uint64 {
	for i := 0; i < len(s); i++ {
		h = (h ^ uint64(s[i])) * 1099511628211
	}
	return h
}

// ---- entry point ----

// Main is called by the generated glue's main().
func Main(glues map[string]Glue) {
	if len(os.Args) != 3 {
		fmt.Fprintln(os.Stderr, "usage: driver <jobs.json> <results.json>")
		os.Exit(2)
	}
	data, err := os.ReadFile(os.Args[1])
	if err != nil {
		fmt.Fprintln(os.Stderr, err)
		os.Exit(2)
	}
	var jobs []Job
	if err := json.Unmarshal(data, &jobs); err != nil {
		fmt.Fprintln(os.Stderr, "bad jobs file:", err)
		os.Exit(2)
	}
	// generated -debug code prints to stdout: silence it
	if devnull, err := os.OpenFile("/dev/null", os.O_WRONLY, 0); err == nil {
		os.Stdout = devnull
	}
	out, err := os.Create(os.Args[2])
	if err != nil {
		fmt.Fprintln(os.Stderr, err)
		os.Exit(2)
	}
	enc := json.NewEncoder(out)
	raceLog := os.Getenv("VERIF_RACELOG")
	for i := range jobs {
		j := &jobs[i]
		g, ok := glues[j.Variant]
		res := &JobResult{ID: j.ID, Stats: map[string]int{}}
		if !ok {
			res.Harness = "unknown variant " + j.Variant
		} else {
			before := raceLogSize(raceLog)
			runJob(g, j, res)
			if d := guardsIntact(); d != "" {
				res.Violations = append(res.Violations, Viol{Class: "wrote-outside-source", Detail: d})
			}
			if after := raceLogSize(raceLog); after != before {
				res.Race = true
				res.RaceText = raceLogRead(raceLog, before, after)
			}
		}
		if err := enc.Encode(res); err != nil {
			fmt.Fprintln(os.Stderr, err)
			os.Exit(2)
		}
	}
	out.Close()
}

func raceLogRead(prefix string, from, to int64) string {
	f, err := os.Open(prefix + "." + strconv.Itoa(os.Getpid()))
	if err != nil {
		return ""
	}
	defer f.Close()
	if to-from > 16384 {
		to = from + 16384
	}
	buf := make([]byte, to-from)
	n, _ := f.ReadAt(buf, from)
	return string(buf[:n])
}

func raceLogSize(prefix string) int64 {
	if prefix == "" {
		return 0
	}
	st, err := os.Stat(prefix + "." + strconv.Itoa(os.Getpid()))
	if err != nil {
		return 0
	}
	return st.Size()
}

func runJob(g Glue, j *Job, res *JobResult) {
	defer func() {
		if r := recover(); r != nil {
			res.Harness = fmt.Sprintf("harness panic in job %d: %v", j.ID, r)
		}
	}()
	gsim.SetKnob("iNITIAL_STACK_SIZE", j.Knob)
	if j.Budget <= 0 {
		j.Budget = 50_000_000
	}
	switch j.Kind {
	case "c03":
		runC03(g, j, res)
	case "c16":
		runC16(g, j, res)
	case "c17":
		runC17(g, j, res)
	default:
		res.Harness = "unknown job kind " + j.Kind
	}
}

func clipS(s string) string {
	if len(s) > 200 {
		return s[:200] + "..."
	}
	return s
}
