package harness

import (
	"fmt"
	"strconv"

	"verifsim/inject/act"
	"verifsim/inject/gsim"
)

// runC17: every task's history is first run alone (main goroutine, fresh
// objects), then all tasks run under the seeded cooperative scheduler, each on
// its own objects, then alone again.  Each task must observe exactly what it
// observes alone.  The race detector (a -race build) judges synchronisation;
// its reports are collected by the caller through the GORACE log.
func runC17(g Glue, j *Job, res *JobResult) {
	e := &env{g: g, full: true, tokMethods: true}
	n := len(j.Tasks)
	// inputs that more than one task lexes live in one buffer shared by those tasks
	if !j.Free {
		count := map[string]int{}
		for _, t := range j.Tasks {
			seen := map[string]bool{}
			for _, op := range t.Ops {
				if op.In != nil && !op.In.FromFile && !op.In.UseTokens && op.Op == "parse" && !seen[op.In.Text] {
					seen[op.In.Text] = true
					count[op.In.Text]++
				}
			}
		}
		e.shared = map[string][]byte{}
		for text, c := range count {
			if c >= 2 {
				e.shared[text] = newGuardedSrc(text)
			}
		}
		res.Stats["shared-input-buffers"] = len(e.shared)
	}
	solo := func() [][]string {
		out := make([][]string, n)
		for i := 0; i < n; i++ {
			sess := &act.Session{TaskID: i}
			gsim.SetMain(sess, j.Budget)
			out[i] = e.execOps(j.Tasks[i].Ops, e.newObjects(), sess, j.Budget, nil)
		}
		return out
	}
	y0 := gsim.TotalYields()
	var before [][]string
	if !j.Cold {
		before = solo()
	}
	total := int(gsim.TotalYields() - y0)
	if len(j.Schedule.Permille) > 0 {
		for _, pm := range j.Schedule.Permille {
			j.Schedule.Points = append(j.Schedule.Points, [2]int{pm[0] * total / 1000, pm[1]})
		}
	}
	res.Stats["solo-yields"] = total
	datas := make([]interface{}, n)
	bodies := make([]func(), n)
	got := make([][]string, n)
	for i := 0; i < n; i++ {
		i := i
		sess := &act.Session{TaskID: i}
		datas[i] = sess
		bodies[i] = func() {
			got[i] = e.execOps(j.Tasks[i].Ops, e.newObjects(), sess, j.Budget, nil)
		}
	}
	var s *gsim.Sched
	var panics []interface{}
	if j.Free {
		panics = gsim.RunFree(datas, j.Budget, bodies)
		s = &gsim.Sched{}
		res.Stats["free-mode"] = 1
	} else {
		s, panics = gsim.Run(j.Schedule, datas, j.Budget, bodies)
	}
	after := solo()
	if j.Cold {
		// cold start: the reference is what each task observes alone afterwards
		before = after
		res.Stats["cold-start"] = 1
	}

	var dg uint64 = 14695981039346656037
	for i := 0; i < n; i++ {
		res.Evals += len(before[i])
		if panics[i] != nil {
			res.Violations = append(res.Violations, Viol{Class: "task-panic", At: i, Detail: fmt.Sprintf("task %d panicked under the schedule: %v", i, panics[i])})
			continue
		}
		if d := diffObs(before[i], got[i]); d != "" {
			res.Violations = append(res.Violations, Viol{Class: "result-differs-under-schedule", At: i,
				Detail: fmt.Sprintf("task %d of %d: %s", i, n, d)})
		}
		if d := diffObs(before[i], after[i]); d != "" {
			res.Violations = append(res.Violations, Viol{Class: "solo-result-drifts", At: i,
				Detail: fmt.Sprintf("task %d alone, after the concurrent run, no longer observes what it observed before it: %s", i, d)})
		}
		td := uint64(14695981039346656037)
		for _, o := range got[i] {
			dg = digestAdd(dg, o)
			td = digestAdd(td, o)
		}
		res.TaskDigest = append(res.TaskDigest, fmt.Sprintf("%016x", td))
	}
	h := uint64(1469598103934665603)
	sw := 0
	for k, id := range s.Trace {
		h = (h ^ uint64(id+1)) * 1099511628211
		if k > 0 && s.Trace[k-1] != id {
			sw++
		}
	}
	res.TraceHash = strconv.FormatUint(h, 16)
	res.Steps = len(s.Trace)
	res.Switches = sw
	res.SwitchAt = s.SwitchAt
	res.Digest = fmt.Sprintf("%016x", dg)
}

func diffObs(want, got []string) string {
	if len(want) != len(got) {
		return fmt.Sprintf("%d observations alone, %d under the schedule", len(want), len(got))
	}
	for i := range want {
		if want[i] != got[i] {
			return fmt.Sprintf("observation %d: alone vs scheduled: %s", i, firstDiff(got[i], want[i]))
		}
	}
	return ""
}
