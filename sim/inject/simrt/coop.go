package simrt

import (
	"fmt"
	"os"
)

// Cooperative scheduling of gocc's OWN goroutines (none exist in the tree
// today; this seam is cut so that a change which introduces concurrency is
// scheduled by the plan instead of by the Go runtime).  The rewriter turns
// `go f(a, b)` into simrt.Go2(f, a, b) and redirects package sync / runtime to
// simsync / simruntime.  Every goroutine is a task; exactly one task runs at a
// time; control changes hands only at Tick (every function entry and loop
// head), at a blocking primitive, and when a task ends.  Which runnable task
// runs next is decided by the plan's SchedPlan.

type SchedPlan struct {
	Policy string `json:"policy,omitempty"` // "" / main-first | child-first | random
	Seed   uint64 `json:"seed,omitempty"`
	Every  int    `json:"every,omitempty"` // random: consider a switch every n-th tick (default 1)
}

type task struct {
	id      int
	wake    chan struct{}
	done    bool
	blocked func() bool // non-nil: runnable only once it returns true
}

var (
	tasks    []*task
	curTask  *task
	schedRng uint64
	spawned  int
	switches int
)

func coopInit() {
	curTask = &task{id: 0, wake: make(chan struct{})}
	tasks = []*task{curTask}
	schedRng = mix(ThePlan.Sched.Seed ^ 0xc00b)
}

func runnable(t *task) bool {
	if t.done {
		return false
	}
	if t.blocked != nil {
		if !t.blocked() {
			return false
		}
		t.blocked = nil
	}
	return true
}

// switchTo hands the processor to t and parks the caller until it is woken.
func switchTo(t *task, parkSelf bool) {
	me := curTask
	if t == me {
		return
	}
	switches++
	curTask = t
	t.wake <- struct{}{}
	if parkSelf {
		<-me.wake
	}
}

// pick chooses the next task among the runnable ones (never nil unless deadlock).
func pick(preferOther bool) *task {
	var rs []*task
	for _, t := range tasks {
		if runnable(t) {
			rs = append(rs, t)
		}
	}
	if len(rs) == 0 {
		return nil
	}
	switch ThePlan.Sched.Policy {
	case "random":
		schedRng = mix(schedRng)
		return rs[int(schedRng%uint64(len(rs)))]
	case "child-first":
		return rs[len(rs)-1] // newest runnable task
	default: // main-first: lowest id
		return rs[0]
	}
}

func spawn(f func()) {
	if curTask == nil {
		coopInit()
	}
	spawned++
	t := &task{id: len(tasks), wake: make(chan struct{})}
	tasks = append(tasks, t)
	Logf("go task %d", t.id)
	go func() {
		<-t.wake
		f()
		t.done = true
		nx := pick(true)
		if nx == nil {
			deadlock()
		}
		switches++
		curTask = nx
		nx.wake <- struct{}{}
	}()
	if ThePlan.Sched.Policy == "child-first" {
		switchTo(t, true)
	}
}

func deadlock() {
	Logf("deadlock: no runnable task")
	fmt.Fprintln(os.Stderr, "fatal error: all goroutines are asleep - deadlock! (simulated)")
	AtExit(2)
	os.Exit(2)
}

// coopYield is called from Tick.
func coopYield() {
	if len(tasks) < 2 || ThePlan.Sched.Policy != "random" {
		return
	}
	ev := ThePlan.Sched.Every
	if ev > 1 && ticks%int64(ev) != 0 {
		return
	}
	if nx := pick(false); nx != nil && nx != curTask {
		switchTo(nx, true)
	}
}

// Block parks the current task until cond holds (used by simsync).
func Block(cond func() bool) {
	if curTask == nil {
		coopInit()
	}
	for !cond() {
		me := curTask
		me.blocked = cond
		nx := pick(true)
		if nx == nil {
			deadlock()
		}
		if nx == me {
			me.blocked = nil
			return
		}
		switchTo(nx, true)
	}
}

// Gosched lets another runnable task run (runtime.Gosched).
func Gosched() {
	if len(tasks) < 2 {
		return
	}
	me := curTask
	for _, t := range tasks {
		if t != me && runnable(t) {
			switchTo(t, true)
			return
		}
	}
}

func Go0(f func())                                    { spawn(f) }
func Go1[A any](f func(A), a A)                       { spawn(func() { f(a) }) }
func Go2[A, B any](f func(A, B), a A, b B)            { spawn(func() { f(a, b) }) }
func Go3[A, B, C any](f func(A, B, C), a A, b B, c C) { spawn(func() { f(a, b, c) }) }
func Go4[A, B, C, D any](f func(A, B, C, D), a A, b B, c C, d D) {
	spawn(func() { f(a, b, c, d) })
}

// CPUs is what runtime.NumCPU / GOMAXPROCS(0) report inside the simulation.
func CPUs() int {
	if ThePlan.CPUs > 0 {
		return ThePlan.CPUs
	}
	return 8
}

// ---- cooperative channels ----
//
// The rewriter turns `chan T` into *simrt.Chan[T], make(chan T, n) into
// simrt.MakeChan[T](n), `c <- v` into c.Send(v), `<-c` into c.Recv() /
// c.Recv2(), close(c) into c.Close() and `for v := range c` into a Recv2 loop.
// Blocking parks the task through Block, so which of several ready goroutines
// gets a value, and in which order results arrive, is the plan's decision.
// select is not supported (the census reports it and the goroutines stay real).

type Chan[T any] struct {
	buf    []T
	cap    int
	closed bool
	// unbuffered rendezvous: the n-th value handed over is acknowledged by recvSeq > n
	val     T
	full    bool
	sendSeq uint64
	recvSeq uint64
}

func MakeChan[T any](n int) *Chan[T] {
	if n < 0 {
		panic("makechan: size out of range")
	}
	return &Chan[T]{cap: n}
}

func never() bool { return false }

func (c *Chan[T]) Send(v T) {
	if c == nil {
		Block(never)
	}
	if c.closed {
		panic("send on closed channel")
	}
	if c.cap > 0 {
		Block(func() bool { return len(c.buf) < c.cap || c.closed })
		if c.closed {
			panic("send on closed channel")
		}
		c.buf = append(c.buf, v)
		return
	}
	Block(func() bool { return !c.full || c.closed })
	if c.closed {
		panic("send on closed channel")
	}
	my := c.sendSeq
	c.sendSeq++
	c.val, c.full = v, true
	Block(func() bool { return c.recvSeq > my || c.closed })
	if c.recvSeq <= my {
		panic("send on closed channel")
	}
}

func (c *Chan[T]) Recv2() (v T, ok bool) {
	if c == nil {
		Block(never)
	}
	if c.cap > 0 {
		Block(func() bool { return len(c.buf) > 0 || c.closed })
		if len(c.buf) > 0 {
			v = c.buf[0]
			c.buf = c.buf[1:]
			return v, true
		}
		return v, false
	}
	Block(func() bool { return c.full || c.closed })
	if c.full {
		v = c.val
		var zero T
		c.val, c.full = zero, false
		c.recvSeq++
		return v, true
	}
	return v, false
}

func (c *Chan[T]) Recv() T {
	v, _ := c.Recv2()
	return v
}

func (c *Chan[T]) Close() {
	if c == nil {
		panic("close of nil channel")
	}
	if c.closed {
		panic("close of closed channel")
	}
	c.closed = true
}

func (c *Chan[T]) Len() int {
	if c == nil {
		return 0
	}
	if c.cap == 0 {
		return 0
	}
	return len(c.buf)
}

func (c *Chan[T]) Cap() int {
	if c == nil {
		return 0
	}
	return c.cap
}
