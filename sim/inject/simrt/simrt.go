// Package simrt is the run-time half of the simulator that is compiled INTO a
// scratch copy of gocc (never into /repo).  It owns: the plan of the run (read
// once from the file named by VERIF_PLAN), the step counter (Tick), the order
// of every range-over-map loop (Keys), the simulated clock / PRNG / pid and the
// event log.  No choice is ever drawn while the program runs: everything is a
// pure function of the plan.
package simrt

import (
	"encoding/json"
	"fmt"
	"os"
	"runtime"
	"sort"
	"strings"
	"sync"
	"sync/atomic"
	"time"
)

// mu guards the simulator's own state.  It only matters when the code under
// test runs REAL goroutines, i.e. when its concurrency could not be put under
// the cooperative scheduler (channels, unrewritable go statements); then the
// run is observation, not simulation, but the instrumentation must not crash.
var mu sync.Mutex

// Fault is one planned environment fault, matched by global operation index.
type Fault struct {
	Op    int    `json:"op"`              // 1-based index of the simos operation it hits
	Kind  string `json:"kind"`            // err | short | crash_before | crash_after | torn
	Errno string `json:"errno,omitempty"` // ENOSPC EIO EACCES EROFS ENOTDIR EMFILE ENOENT EISDIR
	Keep  int    `json:"keep,omitempty"`  // bytes persisted for short / torn (-1: len-1, -2: half)
}

// SiteOcc selects one visit of one range-over-map site. Occ<=0 means every visit.
type SiteOcc struct {
	Site string `json:"site"`
	Occ  int    `json:"occ"`
}

// MapPlan prescribes the iteration order of every range-over-map loop.
type MapPlan struct {
	Policy string    `json:"policy"` // identity | reverse | rotate | shuffle
	Seed   uint64    `json:"seed"`
	Only   []SiteOcc `json:"only,omitempty"` // if non-empty: only these visits are permuted
}

type Plan struct {
	Map        MapPlan   `json:"map"`
	Faults     []Fault   `json:"faults,omitempty"`
	Clock      int64     `json:"clock"` // unix seconds of the simulated clock
	Rand       uint64    `json:"rand"`
	Pid        int       `json:"pid"`
	Host       string    `json:"host,omitempty"`
	FullAfter  int64     `json:"full_after,omitempty"` // > 0: the disk is full once this many bytes have been written: that write is cut short and every later write-side operation fails with ENOSPC
	Sched      SchedPlan `json:"sched,omitempty"`
	CPUs       int       `json:"cpus,omitempty"`
	Heap       uint64    `json:"heap,omitempty"` // != 0: the heap is fragmented before main runs (seeded), so that addresses handed out later, and their order, differ from run to run
	TickBudget int64     `json:"tick_budget"`
	Root       string    `json:"root,omitempty"` // path prefix stripped from logged paths
	Log        string    `json:"log,omitempty"`
}

var (
	ThePlan  Plan
	ticks    int64
	logf     *os.File
	siteStat = map[string]*SiteStat{}
	only     map[string]map[int]bool
	occ             = map[string]int{}
	permHash uint64 = 1469598103934665603
	done     bool
)

type SiteStat struct {
	Visits   int `json:"visits"`
	Multi    int `json:"multi"`    // visits with >= 2 entries
	Permuted int `json:"permuted"` // visits with >= 2 entries whose order differed from sorted
	MaxLen   int `json:"maxlen"`
}

const (
	ExitTickBudget = 97
	ExitCrash      = 98
)

func init() {
	ThePlan = Plan{Map: MapPlan{Policy: "identity"}, Clock: 1700000000, Pid: 4242, TickBudget: 1 << 40}
	if p := os.Getenv("VERIF_PLAN"); p != "" {
		data, err := os.ReadFile(p)
		if err != nil {
			fmt.Fprintln(os.Stderr, "simrt: cannot read plan:", err)
			os.Exit(99)
		}
		if err := json.Unmarshal(data, &ThePlan); err != nil {
			fmt.Fprintln(os.Stderr, "simrt: bad plan:", err)
			os.Exit(99)
		}
	}
	if ThePlan.TickBudget <= 0 {
		ThePlan.TickBudget = 1 << 40
	}
	if ThePlan.Heap != 0 {
		fragmentHeap(ThePlan.Heap)
	}
	if ThePlan.Log != "" {
		f, err := os.OpenFile(ThePlan.Log, os.O_CREATE|os.O_WRONLY|os.O_TRUNC, 0o644)
		if err != nil {
			fmt.Fprintln(os.Stderr, "simrt: cannot open log:", err)
			os.Exit(99)
		}
		logf = f
	}
	if len(ThePlan.Map.Only) > 0 {
		only = map[string]map[int]bool{}
		for _, so := range ThePlan.Map.Only {
			if only[so.Site] == nil {
				only[so.Site] = map[int]bool{}
			}
			if so.Occ <= 0 {
				only[so.Site][0] = true
			} else {
				only[so.Site][so.Occ] = true
			}
		}
	}
}

// Logf appends one event line to the run's log. It draws nothing and reads no clock.
func Logf(format string, args ...interface{}) {
	mu.Lock()
	defer mu.Unlock()
	if logf != nil {
		fmt.Fprintf(logf, format+"\n", args...)
	}
}

// Rel strips the scratch root from a path so that logs of runs in different
// scratch directories are comparable.
func Rel(p string) string {
	if ThePlan.Root != "" && strings.HasPrefix(p, ThePlan.Root) {
		return "$ROOT" + p[len(ThePlan.Root):]
	}
	return p
}

// Tick is inserted at every function entry and loop head of gocc's own packages.
// Threaded is set (by a generated init) when the code under test has
// goroutines that could not be put under the cooperative scheduler.  Then every
// Tick perturbs the real schedule a little, seeded by the plan: the run is
// observation of real executions, made more varied, not a simulation.
var Threaded bool

var noiseCtr uint64

func noise() {
	n := atomic.AddUint64(&noiseCtr, 1)
	h := mix(n*0x9e3779b97f4a7c15 ^ ThePlan.Sched.Seed)
	switch {
	case h%48 == 0:
		runtime.Gosched()
	case h%3000 == 1:
		time.Sleep(time.Duration((h>>20)%300) * time.Microsecond)
	}
}

func Tick() {
	if Threaded {
		noise()
	}
	if atomic.AddInt64(&ticks, 1) > ThePlan.TickBudget {
		Logf("tick-budget-exceeded %d", ticks)
		AtExit(ExitTickBudget)
		os.Exit(ExitTickBudget)
	}
	if spawned > 0 {
		coopYield()
	}
}

func Ticks() int64 { return ticks }

// AtExit flushes counters. It is called by simos.Exit, by the deferred call the
// rewriter puts at the top of main.main (code -1: fell off main or panicking).
func AtExit(code int) {
	mu.Lock()
	if done {
		mu.Unlock()
		return
	}
	done = true
	mu.Unlock()
	sites := make([]string, 0, len(siteStat))
	for s := range siteStat {
		sites = append(sites, s)
	}
	sort.Strings(sites)
	for _, s := range sites {
		st := siteStat[s]
		Logf("site %s visits=%d multi=%d permuted=%d maxlen=%d", s, st.Visits, st.Multi, st.Permuted, st.MaxLen)
	}
	if spawned > 0 {
		Logf("tasks spawned=%d switches=%d", spawned, switches)
	}
	Logf("permhash %016x", permHash)
	Logf("ticks %d", ticks)
	Logf("exit %d", code)
	if logf != nil {
		logf.Close()
		logf = nil
	}
}

func mix(x uint64) uint64 {
	x += 0x9e3779b97f4a7c15
	x = (x ^ (x >> 30)) * 0xbf58476d1ce4e5b9
	x = (x ^ (x >> 27)) * 0x94d049bb133111eb
	return x ^ (x >> 31)
}

func hashStr(h uint64, s string) uint64 {
	for i := 0; i < len(s); i++ {
		h ^= uint64(s[i])
		h *= 1099511628211
	}
	return h
}

// Keys returns the keys of m in the order the plan prescribes for this visit
// of this site.  Every order it can return is an order the Go specification
// allows a range-over-map loop to produce.
func Keys[K comparable, V any](m map[K]V, site string) []K {
	keys := make([]K, 0, len(m))
	for k := range m {
		keys = append(keys, k)
	}
	sortKeys(keys)
	mu.Lock()
	defer mu.Unlock()
	occ[site]++
	o := occ[site]
	st := siteStat[site]
	if st == nil {
		st = &SiteStat{}
		siteStat[site] = st
	}
	st.Visits++
	n := len(keys)
	if n > st.MaxLen {
		st.MaxLen = n
	}
	if n < 2 {
		return keys
	}
	st.Multi++
	pol := ThePlan.Map.Policy
	if only != nil {
		if s := only[site]; s == nil || !(s[0] || s[o]) {
			pol = "identity"
		}
	}
	h := mix(hashStr(ThePlan.Map.Seed^0x51ed270b, site) + uint64(o)*0x9e3779b97f4a7c15)
	switch pol {
	case "", "identity":
		return keys
	case "reverse":
		for i, j := 0, n-1; i < j; i, j = i+1, j-1 {
			keys[i], keys[j] = keys[j], keys[i]
		}
	case "rotate":
		r := int(h % uint64(n))
		if r == 0 {
			r = 1
		}
		rot := make([]K, 0, n)
		rot = append(rot, keys[r:]...)
		rot = append(rot, keys[:r]...)
		keys = rot
	case "shuffle":
		for i := n - 1; i > 0; i-- {
			h = mix(h)
			j := int(h % uint64(i+1))
			keys[i], keys[j] = keys[j], keys[i]
		}
	default:
		fmt.Fprintln(os.Stderr, "simrt: unknown map policy", pol)
		os.Exit(99)
	}
	st.Permuted++
	permHash = mix(permHash ^ h ^ hashStr(uint64(n), pol))
	return keys
}

func sortKeys[K comparable](keys []K) {
	if len(keys) < 2 {
		return
	}
	switch ks := any(keys).(type) {
	case []string:
		sort.Strings(ks)
		return
	case []int:
		sort.Ints(ks)
		return
	}
	// Any other key kind: order by a canonical rendering.  The rewriter's
	// census lists sites whose key type has no stable rendering (pointers,
	// interfaces holding pointers); for integer-like named types %v is stable.
	type kv struct {
		s string
		k K
	}
	r := make([]kv, len(keys))
	for i, k := range keys {
		r[i] = kv{render(k), k}
	}
	sort.SliceStable(r, func(i, j int) bool {
		if len(r[i].s) != len(r[j].s) && isNum(r[i].s) && isNum(r[j].s) {
			return len(r[i].s) < len(r[j].s)
		}
		return r[i].s < r[j].s
	})
	for i := range r {
		keys[i] = r[i].k
	}
}

func render(k any) string { return fmt.Sprintf("%#v", k) }

func isNum(s string) bool {
	for i := 0; i < len(s); i++ {
		if s[i] < '0' || s[i] > '9' {
			return false
		}
	}
	return len(s) > 0
}

// MapsKeys, MapsValues and MapsAll stand in for maps.Keys / maps.Values /
// maps.All (iterators over a map in runtime order): same seeded order as Keys.
func MapsKeys[K comparable, V any](m map[K]V, site string) func(yield func(K) bool) {
	return func(yield func(K) bool) {
		for _, k := range Keys(m, site) {
			if _, ok := m[k]; !ok {
				continue
			}
			if !yield(k) {
				return
			}
		}
	}
}

func MapsValues[K comparable, V any](m map[K]V, site string) func(yield func(V) bool) {
	return func(yield func(V) bool) {
		for _, k := range Keys(m, site) {
			v, ok := m[k]
			if !ok {
				continue
			}
			if !yield(v) {
				return
			}
		}
	}
}

func MapsAll[K comparable, V any](m map[K]V, site string) func(yield func(K, V) bool) {
	return func(yield func(K, V) bool) {
		for _, k := range Keys(m, site) {
			v, ok := m[k]
			if !ok {
				continue
			}
			if !yield(k, v) {
				return
			}
		}
	}
}

// Iter is what a rewritten range-over-map loop iterates with.  The keys present
// when the loop starts are visited in the order the plan prescribes (Keys).  The
// Go specification leaves open whether entries ADDED during the iteration are
// produced: when the plan permutes this visit, a bit of the plan decides it (the
// added keys follow the original ones); under the identity plan they are not
// produced.  Entries removed before being reached are skipped, as the
// specification requires.
type Iter[K comparable, V any] struct {
	m        map[K]V
	pending  []K
	produced map[K]bool // only when added entries are to be produced as well
	k        K
	v        V
}

func NewIter[K comparable, V any](m map[K]V, site string) *Iter[K, V] {
	it := &Iter[K, V]{m: m}
	permBefore := 0
	if st := siteStat[site]; st != nil {
		permBefore = st.Permuted
	}
	it.pending = Keys(m, site)
	if st := siteStat[site]; st != nil && st.Permuted > permBefore {
		if h := mix(hashStr(ThePlan.Map.Seed^0xadded, site) + uint64(st.Visits)); h&1 == 1 {
			it.produced = make(map[K]bool, len(it.pending))
			for _, k := range it.pending {
				it.produced[k] = true
			}
		}
	}
	return it
}

func (it *Iter[K, V]) Next() bool {
	for {
		for len(it.pending) > 0 {
			k := it.pending[0]
			it.pending = it.pending[1:]
			v, ok := it.m[k]
			if !ok {
				continue
			}
			it.k, it.v = k, v
			return true
		}
		if it.produced == nil {
			return false
		}
		var added []K
		for k := range it.m {
			if !it.produced[k] {
				added = append(added, k)
				it.produced[k] = true
			}
		}
		if len(added) == 0 {
			return false
		}
		sortKeys(added)
		it.pending = added
	}
}

func (it *Iter[K, V]) Key() K { return it.k }
func (it *Iter[K, V]) Val() V { return it.v }

// heapKeep keeps part of the noise alive for the whole run.
var heapKeep [][]*byte

// fragmentHeap allocates a few thousand pointer-carrying objects in each small
// size class, drops a seeded subset and lets the collector sweep them: the
// free slots that later allocations fill are then scattered over many spans, so
// two objects allocated one after the other need not lie in address order, and
// which addresses they get depends on the seed.  (On a real machine the same
// is brought about by the collector's timing; output that depends on
// addresses - sorting by pointer, %p, maps keyed by pointer iterated "in
// order" - is nondeterministic in the sense of the property.)
func fragmentHeap(seed uint64) {
	x := seed | 1
	next := func() uint64 {
		x ^= x << 13
		x ^= x >> 7
		x ^= x << 17
		return x
	}
	var all [][]*byte
	for _, words := range []int{1, 2, 3, 4, 5, 6, 7, 8, 10, 12, 14, 16, 20, 24, 32, 48, 64} {
		n := 1024 + int(next()%3072)
		for i := 0; i < n; i++ {
			all = append(all, make([]*byte, words))
		}
	}
	for i := range all {
		if next()%10 < 3 {
			heapKeep = append(heapKeep, all[i])
		}
		all[i] = nil
	}
	all = nil
	runtime.GC()
	runtime.GC()
}
