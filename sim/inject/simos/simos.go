// Package simos stands in for package os inside the scratch copy of gocc: the
// rewriter turns `import "os"` into `import os ".../simos"`.  Everything not
// overridden here is re-exported from the real package by the generated file
// zz_reexport.go.  Every overridden call is one numbered *operation* that is
// logged and, if the plan says so, failed, cut short or followed by a crash;
// otherwise it is forwarded to the real operating system (the disk is real,
// only the decision to fail is simulated).
package simos

import (
	"io"
	"io/fs"
	"os"
	"sync"
	"syscall"

	"verifsim/inject/simrt"
)

var opCount int

// OpCount is the number of operations performed so far.
func OpCount() int { return opCount }

var errnos = map[string]syscall.Errno{
	"ENOSPC": syscall.ENOSPC, "EIO": syscall.EIO, "EACCES": syscall.EACCES, "EROFS": syscall.EROFS,
	"ENOTDIR": syscall.ENOTDIR, "EMFILE": syscall.EMFILE, "ENOENT": syscall.ENOENT, "EISDIR": syscall.EISDIR,
	"EEXIST": syscall.EEXIST, "EINTR": syscall.EINTR, "EDQUOT": syscall.EDQUOT,
}

type verdict struct {
	f    *simrt.Fault
	errn syscall.Errno
}

// begin numbers and logs one operation and returns the fault planned for it.
var opMu sync.Mutex

var (
	written  int64 // bytes written so far through this seam
	diskFull bool
)

// fullDisk implements the plan's FullAfter: it returns (bytes that still fit, true)
// when the operation must fail with ENOSPC.
func fullDisk(call string, size int) (int, bool) {
	lim := simrt.ThePlan.FullAfter
	if lim <= 0 {
		return 0, false
	}
	opMu.Lock()
	defer opMu.Unlock()
	if diskFull {
		simrt.Logf("disk-full %s size=%d keep=0", call, size)
		return 0, true
	}
	if written+int64(size) > lim {
		keep := int(lim - written)
		written = lim
		diskFull = true
		simrt.Logf("disk-full %s size=%d keep=%d", call, size, keep)
		return keep, true
	}
	written += int64(size)
	return 0, false
}

func begin(call, path string, size int) verdict {
	opMu.Lock()
	defer opMu.Unlock()
	opCount++
	var hit *simrt.Fault
	for i := range simrt.ThePlan.Faults {
		if simrt.ThePlan.Faults[i].Op == opCount {
			hit = &simrt.ThePlan.Faults[i]
			break
		}
	}
	kind := "-"
	if hit != nil {
		kind = hit.Kind + ":" + hit.Errno
	}
	simrt.Logf("op %d %s %s size=%d fault=%s", opCount, call, simrt.Rel(path), size, kind)
	v := verdict{f: hit}
	if hit != nil {
		e, ok := errnos[hit.Errno]
		if !ok {
			e = syscall.EIO
		}
		v.errn = e
		if hit.Kind == "crash_before" {
			crash()
		}
	}
	return v
}

func (v verdict) isErr() bool   { return v.f != nil && v.f.Kind == "err" }
func (v verdict) isShort() bool { return v.f != nil && (v.f.Kind == "short" || v.f.Kind == "torn") }
func (v verdict) keep(n int) int {
	k := v.f.Keep
	switch {
	case k == -1:
		k = n - 1
	case k == -2:
		k = n / 2
	}
	if k < 0 {
		k = 0
	}
	if k > n {
		k = n
	}
	return k
}
func (v verdict) end() {
	if v.f != nil && (v.f.Kind == "crash_after" || v.f.Kind == "torn") {
		crash()
	}
}

func crash() {
	simrt.Logf("crash at op %d", opCount)
	simrt.AtExit(simrt.ExitCrash)
	os.Exit(simrt.ExitCrash)
}

func perr(op, path string, e syscall.Errno) error { return &fs.PathError{Op: op, Path: path, Err: e} }

// ---- overridden package-level functions ----

func Exit(code int) {
	simrt.AtExit(code)
	os.Exit(code)
}

func Getpid() int  { return simrt.ThePlan.Pid }
func Getppid() int { return simrt.ThePlan.Pid - 1 }
func Hostname() (string, error) {
	if simrt.ThePlan.Host != "" {
		return simrt.ThePlan.Host, nil
	}
	return "simhost", nil
}

func Getwd() (string, error) {
	v := begin("Getwd", "", 0)
	defer v.end()
	if v.isErr() {
		return "", &os.SyscallError{Syscall: "getwd", Err: v.errn}
	}
	return os.Getwd()
}

func Stat(name string) (fs.FileInfo, error) {
	v := begin("Stat", name, 0)
	defer v.end()
	if v.isErr() {
		return nil, perr("stat", name, v.errn)
	}
	return os.Stat(name)
}

func Lstat(name string) (fs.FileInfo, error) {
	v := begin("Lstat", name, 0)
	defer v.end()
	if v.isErr() {
		return nil, perr("lstat", name, v.errn)
	}
	return os.Lstat(name)
}

func ReadFile(name string) ([]byte, error) {
	v := begin("ReadFile", name, 0)
	defer v.end()
	if v.isErr() {
		return nil, perr("open", name, v.errn)
	}
	data, err := os.ReadFile(name)
	if err == nil && v.isShort() {
		return data[:v.keep(len(data))], perr("read", name, v.errn)
	}
	return data, err
}

func ReadDir(name string) ([]fs.DirEntry, error) {
	v := begin("ReadDir", name, 0)
	defer v.end()
	if v.isErr() {
		return nil, perr("open", name, v.errn)
	}
	return os.ReadDir(name)
}

func WriteFile(name string, data []byte, perm fs.FileMode) error {
	v := begin("WriteFile", name, len(data))
	defer v.end()
	if v.isErr() {
		return perr("open", name, v.errn)
	}
	if v.isShort() {
		k := v.keep(len(data))
		if err := os.WriteFile(name, data[:k], perm); err != nil {
			return err
		}
		return perr("write", name, v.errn)
	}
	if k, full := fullDisk("WriteFile", len(data)); full {
		if err := os.WriteFile(name, data[:k], perm); err != nil {
			return err
		}
		return perr("write", name, syscall.ENOSPC)
	}
	return os.WriteFile(name, data, perm)
}

func MkdirAll(path string, perm fs.FileMode) error {
	v := begin("MkdirAll", path, 0)
	defer v.end()
	if v.isErr() {
		return perr("mkdir", path, v.errn)
	}
	if _, err := os.Stat(path); err != nil {
		if _, full := fullDisk("MkdirAll", 0); full && diskFull {
			return perr("mkdir", path, syscall.ENOSPC)
		}
	}
	return os.MkdirAll(path, perm)
}

func Mkdir(path string, perm fs.FileMode) error {
	v := begin("Mkdir", path, 0)
	defer v.end()
	if v.isErr() {
		return perr("mkdir", path, v.errn)
	}
	return os.Mkdir(path, perm)
}

func MkdirTemp(dir, pattern string) (string, error) {
	v := begin("MkdirTemp", dir, 0)
	defer v.end()
	if v.isErr() {
		return "", perr("mkdir", dir, v.errn)
	}
	return os.MkdirTemp(dir, pattern)
}

func Rename(oldpath, newpath string) error {
	v := begin("Rename", newpath, 0)
	defer v.end()
	if v.isErr() {
		return &os.LinkError{Op: "rename", Old: oldpath, New: newpath, Err: v.errn}
	}
	return os.Rename(oldpath, newpath)
}

func Remove(name string) error {
	v := begin("Remove", name, 0)
	defer v.end()
	if v.isErr() {
		return perr("remove", name, v.errn)
	}
	return os.Remove(name)
}

func RemoveAll(path string) error {
	v := begin("RemoveAll", path, 0)
	defer v.end()
	if v.isErr() {
		return perr("unlinkat", path, v.errn)
	}
	return os.RemoveAll(path)
}

func Chdir(dir string) error {
	v := begin("Chdir", dir, 0)
	defer v.end()
	if v.isErr() {
		return perr("chdir", dir, v.errn)
	}
	return os.Chdir(dir)
}

// ---- files ----

// File wraps *os.File: writes, reads, Sync and Close are operations.
type File struct {
	*os.File
	dir *dirState // directory entries still to be handed out (see Readdirnames)
}

var (
	Stdin  = &File{File: os.Stdin}
	Stdout = &File{File: os.Stdout}
	Stderr = &File{File: os.Stderr}
)

func wrap(f *os.File, err error) (*File, error) {
	if f == nil {
		return nil, err
	}
	return &File{File: f}, err
}

func Create(name string) (*File, error) {
	v := begin("Create", name, 0)
	defer v.end()
	if v.isErr() {
		return nil, perr("open", name, v.errn)
	}
	return wrap(os.Create(name))
}

func Open(name string) (*File, error) {
	v := begin("Open", name, 0)
	defer v.end()
	if v.isErr() {
		return nil, perr("open", name, v.errn)
	}
	return wrap(os.Open(name))
}

func OpenFile(name string, flag int, perm fs.FileMode) (*File, error) {
	v := begin("OpenFile", name, 0)
	defer v.end()
	if v.isErr() {
		return nil, perr("open", name, v.errn)
	}
	return wrap(os.OpenFile(name, flag, perm))
}

func CreateTemp(dir, pattern string) (*File, error) {
	v := begin("CreateTemp", dir, 0)
	defer v.end()
	if v.isErr() {
		return nil, perr("open", dir, v.errn)
	}
	return wrap(os.CreateTemp(dir, pattern))
}

func NewFile(fd uintptr, name string) *File {
	f := os.NewFile(fd, name)
	if f == nil {
		return nil
	}
	return &File{File: f}
}

func (f *File) std() bool {
	return f.File == os.Stdout || f.File == os.Stderr || f.File == os.Stdin
}

func (f *File) Write(b []byte) (int, error) {
	if f.std() {
		return f.File.Write(b)
	}
	v := begin("Write", f.File.Name(), len(b))
	defer v.end()
	if v.isErr() {
		return 0, perr("write", f.File.Name(), v.errn)
	}
	if v.isShort() {
		k := v.keep(len(b))
		n, err := f.File.Write(b[:k])
		if err != nil {
			return n, err
		}
		return n, perr("write", f.File.Name(), v.errn)
	}
	if k, full := fullDisk("Write", len(b)); full {
		n, err := f.File.Write(b[:k])
		if err != nil {
			return n, err
		}
		return n, perr("write", f.File.Name(), syscall.ENOSPC)
	}
	return f.File.Write(b)
}

func (f *File) WriteString(s string) (int, error) { return f.Write([]byte(s)) }

func (f *File) WriteAt(b []byte, off int64) (int, error) {
	v := begin("WriteAt", f.File.Name(), len(b))
	defer v.end()
	if v.isErr() {
		return 0, perr("write", f.File.Name(), v.errn)
	}
	if v.isShort() {
		k := v.keep(len(b))
		n, err := f.File.WriteAt(b[:k], off)
		if err != nil {
			return n, err
		}
		return n, perr("write", f.File.Name(), v.errn)
	}
	return f.File.WriteAt(b, off)
}

// ReadFrom must not be promoted from *os.File: io.Copy would bypass Write.
func (f *File) ReadFrom(r io.Reader) (int64, error) {
	buf := make([]byte, 32*1024)
	var total int64
	for {
		n, err := r.Read(buf)
		if n > 0 {
			w, werr := f.Write(buf[:n])
			total += int64(w)
			if werr != nil {
				return total, werr
			}
		}
		if err == io.EOF {
			return total, nil
		}
		if err != nil {
			return total, err
		}
	}
}

func (f *File) Read(b []byte) (int, error) {
	if f.std() {
		return f.File.Read(b)
	}
	v := begin("Read", f.File.Name(), len(b))
	defer v.end()
	if v.isErr() {
		return 0, perr("read", f.File.Name(), v.errn)
	}
	return f.File.Read(b)
}

// WriteTo must not be promoted either: it would bypass Read.
func (f *File) WriteTo(w io.Writer) (int64, error) {
	buf := make([]byte, 32*1024)
	var total int64
	for {
		n, err := f.Read(buf)
		if n > 0 {
			m, werr := w.Write(buf[:n])
			total += int64(m)
			if werr != nil {
				return total, werr
			}
		}
		if err == io.EOF {
			return total, nil
		}
		if err != nil {
			return total, err
		}
	}
}

func (f *File) Sync() error {
	v := begin("Sync", f.File.Name(), 0)
	defer v.end()
	if v.isErr() {
		return perr("sync", f.File.Name(), v.errn)
	}
	return f.File.Sync()
}

func (f *File) Close() error {
	if f.std() {
		return f.File.Close()
	}
	v := begin("Close", f.File.Name(), 0)
	defer v.end()
	if v.isErr() {
		f.File.Close()
		return perr("close", f.File.Name(), v.errn)
	}
	return f.File.Close()
}

func (f *File) Truncate(size int64) error {
	v := begin("Truncate", f.File.Name(), int(size))
	defer v.end()
	if v.isErr() {
		return perr("truncate", f.File.Name(), v.errn)
	}
	return f.File.Truncate(size)
}

// ---- directory order ----
//
// File.Readdirnames / Readdir / ReadDir return entries "in directory order",
// which on a real file system is a hash order with a per-volume seed or the
// order of creation: a source of nondeterminism like map iteration.  The
// seam reads the whole directory once, and hands the entries out in an order
// the plan decides (os.ReadDir, which sorts, is left alone).

type dirState struct {
	ents []fs.DirEntry
}

func (f *File) dirEntries() (*dirState, error) {
	if f.dir != nil {
		return f.dir, nil
	}
	ents, err := f.File.ReadDir(-1)
	if err != nil && len(ents) == 0 {
		return nil, err
	}
	// canonical order first, then the plan's permutation
	for i := 1; i < len(ents); i++ {
		for j := i; j > 0 && ents[j].Name() < ents[j-1].Name(); j-- {
			ents[j], ents[j-1] = ents[j-1], ents[j]
		}
	}
	x := simrt.ThePlan.Rand ^ 0x9e3779b97f4a7c15
	for _, c := range []byte(f.File.Name()) {
		x = (x ^ uint64(c)) * 1099511628211
	}
	switch simrt.ThePlan.Map.Policy {
	case "", "identity":
	case "reverse":
		for i, j := 0, len(ents)-1; i < j; i, j = i+1, j-1 {
			ents[i], ents[j] = ents[j], ents[i]
		}
	default:
		for i := len(ents) - 1; i > 0; i-- {
			x ^= x << 13
			x ^= x >> 7
			x ^= x << 17
			j := int(x % uint64(i+1))
			ents[i], ents[j] = ents[j], ents[i]
		}
	}
	simrt.Logf("dir-order %s n=%d", simrt.Rel(f.File.Name()), len(ents))
	f.dir = &dirState{ents: ents}
	return f.dir, nil
}

func (f *File) take(n int) ([]fs.DirEntry, error) {
	d, err := f.dirEntries()
	if err != nil {
		return nil, err
	}
	if n <= 0 {
		out := d.ents
		d.ents = nil
		return out, nil
	}
	if len(d.ents) == 0 {
		return nil, io.EOF
	}
	if n > len(d.ents) {
		n = len(d.ents)
	}
	out := d.ents[:n]
	d.ents = d.ents[n:]
	return out, nil
}

func (f *File) ReadDir(n int) ([]fs.DirEntry, error) { return f.take(n) }

func (f *File) Readdirnames(n int) ([]string, error) {
	ents, err := f.take(n)
	names := make([]string, 0, len(ents))
	for _, e := range ents {
		names = append(names, e.Name())
	}
	return names, err
}

func (f *File) Readdir(n int) ([]fs.FileInfo, error) {
	ents, err := f.take(n)
	infos := make([]fs.FileInfo, 0, len(ents))
	for _, e := range ents {
		if fi, e2 := e.Info(); e2 == nil {
			infos = append(infos, fi)
		}
	}
	return infos, err
}
