package simos

import (
	"fmt"
	"os"
	"path/filepath"
	"sort"
	"testing"

	"verifsim/inject/simrt"
)

func TestDirOrderSeam(t *testing.T) {
	d := t.TempDir()
	for i := 0; i < 9; i++ {
		os.WriteFile(filepath.Join(d, fmt.Sprintf("f%d", i)), nil, 0o644)
	}
	list := func(policy string, rnd uint64, n int) []string {
		simrt.ThePlan.Map.Policy, simrt.ThePlan.Rand = policy, rnd
		f, err := Open(d)
		if err != nil {
			t.Fatal(err)
		}
		defer f.Close()
		var all []string
		for {
			names, err := f.Readdirnames(n)
			all = append(all, names...)
			if err != nil || n <= 0 || len(names) == 0 {
				break
			}
		}
		return all
	}
	id := list("identity", 1, -1)
	if !sort.StringsAreSorted(id) || len(id) != 9 {
		t.Fatalf("identity: %v", id)
	}
	rev := list("reverse", 1, 4)
	if len(rev) != 9 || rev[0] != "f8" {
		t.Fatalf("reverse: %v", rev)
	}
	a, b, c := list("shuffle", 7, 2), list("shuffle", 7, -1), list("shuffle", 8, -1)
	if fmt.Sprint(a) != fmt.Sprint(b) || fmt.Sprint(a) == fmt.Sprint(c) || fmt.Sprint(a) == fmt.Sprint(id) {
		t.Fatalf("shuffle: %v %v %v", a, b, c)
	}
}
