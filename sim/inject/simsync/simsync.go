// Package sync (simsync) stands in for package sync inside the scratch copy of
// gocc when its goroutines are run as cooperative tasks: blocking primitives
// park the task through simrt.Block instead of blocking the only running
// goroutine.  Everything else is re-exported.
package sync

import "verifsim/inject/simrt"

type WaitGroup struct{ n int }

func (wg *WaitGroup) Add(delta int) {
	wg.n += delta
	if wg.n < 0 {
		panic("sync: negative WaitGroup counter")
	}
}
func (wg *WaitGroup) Done() { wg.Add(-1) }
func (wg *WaitGroup) Wait() { simrt.Block(func() bool { return wg.n == 0 }) }
func (wg *WaitGroup) Go(f func()) {
	wg.Add(1)
	simrt.Go0(func() {
		defer wg.Done()
		f()
	})
}

type Mutex struct{ locked bool }

func (m *Mutex) Lock() {
	simrt.Block(func() bool { return !m.locked })
	m.locked = true
}
func (m *Mutex) TryLock() bool {
	if m.locked {
		return false
	}
	m.locked = true
	return true
}
func (m *Mutex) Unlock() {
	if !m.locked {
		panic("sync: unlock of unlocked mutex")
	}
	m.locked = false
}

type Locker interface {
	Lock()
	Unlock()
}

type RWMutex struct {
	w bool
	r int
}

func (m *RWMutex) Lock() {
	simrt.Block(func() bool { return !m.w && m.r == 0 })
	m.w = true
}
func (m *RWMutex) Unlock() { m.w = false }
func (m *RWMutex) RLock() {
	simrt.Block(func() bool { return !m.w })
	m.r++
}
func (m *RWMutex) RUnlock()        { m.r-- }
func (m *RWMutex) RLocker() Locker { return rlocker{m} }

type rlocker struct{ m *RWMutex }

func (r rlocker) Lock()   { r.m.RLock() }
func (r rlocker) Unlock() { r.m.RUnlock() }

type Once struct {
	done    bool
	running bool
}

func (o *Once) Do(f func()) {
	if o.done {
		return
	}
	if o.running {
		simrt.Block(func() bool { return o.done })
		return
	}
	o.running = true
	defer func() { o.done = true; o.running = false }()
	f()
}

func OnceFunc(f func()) func() {
	var o Once
	return func() { o.Do(f) }
}

func OnceValue[T any](f func() T) func() T {
	var o Once
	var v T
	return func() T {
		o.Do(func() { v = f() })
		return v
	}
}

func OnceValues[T1, T2 any](f func() (T1, T2)) func() (T1, T2) {
	var o Once
	var a T1
	var b T2
	return func() (T1, T2) {
		o.Do(func() { a, b = f() })
		return a, b
	}
}
