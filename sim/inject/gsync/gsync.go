// Package sync (gsync) stands in for package sync inside GENERATED code that is
// run under the cooperative scheduler.  Each wrapper keeps the real primitive
// (so the race detector still sees the synchronisation it provides) but never
// blocks the only running goroutine: it spins through gsim.YieldBlocked, which
// makes the scheduler run another task.  The unchanged tree's generated code
// does not use package sync at all.
package sync

import (
	"sync"
	"sync/atomic"

	"verifsim/inject/gsim"
)

type Locker = sync.Locker

type Mutex struct{ m sync.Mutex }

func (m *Mutex) Lock() {
	for !m.m.TryLock() {
		gsim.YieldBlocked()
	}
}
func (m *Mutex) TryLock() bool { return m.m.TryLock() }
func (m *Mutex) Unlock()       { m.m.Unlock() }

type RWMutex struct{ m sync.RWMutex }

func (m *RWMutex) Lock() {
	for !m.m.TryLock() {
		gsim.YieldBlocked()
	}
}
func (m *RWMutex) TryLock() bool { return m.m.TryLock() }
func (m *RWMutex) Unlock()       { m.m.Unlock() }
func (m *RWMutex) RLock() {
	for !m.m.TryRLock() {
		gsim.YieldBlocked()
	}
}
func (m *RWMutex) TryRLock() bool  { return m.m.TryRLock() }
func (m *RWMutex) RUnlock()        { m.m.RUnlock() }
func (m *RWMutex) RLocker() Locker { return rlocker{m} }

type rlocker struct{ m *RWMutex }

func (r rlocker) Lock()   { r.m.RLock() }
func (r rlocker) Unlock() { r.m.RUnlock() }

// Once: the first caller runs f under a (cooperative) mutex; others wait for it.
type Once struct {
	done atomic.Bool
	mu   Mutex
}

func (o *Once) Do(f func()) {
	if o.done.Load() {
		return
	}
	o.mu.Lock()
	defer o.mu.Unlock()
	if !o.done.Load() {
		defer o.done.Store(true)
		f()
	}
}

func OnceFunc(f func()) func() {
	var o Once
	return func() { o.Do(f) }
}

func OnceValue[T any](f func() T) func() T {
	var o Once
	var v T
	return func() T {
		o.Do(func() { v = f() })
		return v
	}
}

func OnceValues[T1, T2 any](f func() (T1, T2)) func() (T1, T2) {
	var o Once
	var a T1
	var b T2
	return func() (T1, T2) {
		o.Do(func() { a, b = f() })
		return a, b
	}
}

// WaitGroup: the real one gives the happens-before edges, a shadow counter tells
// Wait when it may call the real Wait without blocking.
type WaitGroup struct {
	wg sync.WaitGroup
	n  atomic.Int64
}

func (w *WaitGroup) Add(d int) { w.n.Add(int64(d)); w.wg.Add(d) }
func (w *WaitGroup) Done()     { w.wg.Done(); w.n.Add(-1) }
func (w *WaitGroup) Wait() {
	for w.n.Load() > 0 {
		gsim.YieldBlocked()
	}
	w.wg.Wait()
}
func (w *WaitGroup) Go(f func()) {
	w.Add(1)
	go func() {
		defer w.Done()
		f()
	}()
}
