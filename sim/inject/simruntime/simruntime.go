// Package runtime (simruntime) stands in for package runtime inside the
// scratch copy of gocc: the CPU count is the plan's, Gosched is a yield of the
// cooperative scheduler.  Everything else is re-exported.
package runtime

import "verifsim/inject/simrt"

func NumCPU() int { return simrt.CPUs() }

func GOMAXPROCS(n int) int { return simrt.CPUs() }

func Gosched() { simrt.Gosched() }

func NumGoroutine() int { return 1 }
