// Command vcheck is the single front end of the verification machinery:
//
//	vcheck <ID> <quick|thorough>
//	vcheck <ID> --replay <file>
package main

import (
	"errors"
	"fmt"
	"os"
	"os/signal"
	"syscall"

	"verifsim/internal/checks"
	"verifsim/internal/corpus"
)

func usage() {
	fmt.Fprintln(os.Stderr, "usage: vcheck <C03|C09|C11|C16|C17|selftest> <quick|thorough> | vcheck <ID> --replay <file>")
	os.Exit(checks.ExitHarness)
}

func main() {
	if len(os.Args) < 3 {
		usage()
	}
	prop := os.Args[1]
	if prop == "render" { // development aid: vcheck render <grammar-id> <pkg>
		for _, g := range append(append(corpus.Fixed(), corpus.Awkward()...), corpus.Random(1, 200)...) {
			if g.ID == os.Args[2] {
				fmt.Print(g.Render(os.Args[3], "simwork/act"))
				return
			}
		}
		os.Exit(2)
	}
	tier := os.Args[2]
	replay := ""
	if tier == "--replay" {
		if len(os.Args) < 4 {
			usage()
		}
		replay = os.Args[3]
		tier = "quick"
	}
	if tier != "quick" && tier != "thorough" {
		usage()
	}
	c, err := checks.NewCtx(prop, tier)
	if err != nil {
		fmt.Println("harness error:", err)
		os.Exit(checks.ExitHarness)
	}
	c.Replay = replay
	sig := make(chan os.Signal, 1)
	signal.Notify(sig, syscall.SIGINT, syscall.SIGTERM)
	go func() {
		<-sig
		c.Cleanup()
		os.Exit(checks.ExitHarness)
	}()
	fmt.Printf("VERIF_SEED=%d property=%s tier=%s\n", c.Seed, prop, tier)
	code := run(c)
	c.Cleanup()
	os.Exit(code)
}

func run(c *checks.Ctx) (code int) {
	defer func() {
		if r := recover(); r != nil {
			fmt.Println("harness panic:", r)
			code = checks.ExitHarness
		}
	}()
	var err error
	switch c.Prop {
	case "C11":
		err = checks.RunC11(c)
	case "C09":
		err = checks.RunC09(c)
	case "C03":
		err = checks.RunC03(c)
	case "C16":
		err = checks.RunC16(c)
	case "C17":
		err = checks.RunC17(c)
	case "selftest":
		err = checks.RunSelftest(c)
	default:
		fmt.Println("unknown property", c.Prop)
		return checks.ExitHarness
	}
	if err != nil {
		var he *checks.HarnessError
		if errors.As(err, &he) {
			fmt.Println("HARNESS:", he.Msg)
		} else {
			fmt.Println("harness error:", err)
		}
		return checks.ExitHarness
	}
	return c.Finish()
}
