// Command genreexport regenerates inject/*/zz_reexport.go from the standard
// library of the pinned toolchain (development-time; the output is committed).
package main

import (
	"fmt"
	"os"
	"path/filepath"

	"verifsim/internal/rewrite"
	"verifsim/internal/scratch"
)

func main() {
	dir := os.Args[1] // .../sim/inject
	if err := rewrite.GenReexport("sync", filepath.Join(dir, "gsync"), scratch.GoEnv()); err != nil {
		fmt.Fprintln(os.Stderr, "gsync", err)
		os.Exit(1)
	}
	for std, name := range map[string]string{"os": "simos", "time": "simtime", "math/rand": "simrand", "math/rand/v2": "simrand2", "crypto/rand": "simcrand", "io/ioutil": "simioutil", "sync": "simsync", "runtime": "simruntime"} {
		if err := rewrite.GenReexport(std, filepath.Join(dir, name), scratch.GoEnv()); err != nil {
			fmt.Fprintln(os.Stderr, std, err)
			os.Exit(1)
		}
	}
}
