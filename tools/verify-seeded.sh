#!/bin/bash
# verify-seeded.sh <worktree> <variantN> <seeded-id> <property>
# Confirms a sub-agent's change: applies, builds, test suite unchanged, demo fails with / passes without.
# Then copies it to /verif/seeded/<id>/ (patch.diff, demo/, NOTES.md) and prints a summary line.
set -u
WT=$1; V=$2; ID=$3; PROP=$4
export GOFLAGS=-mod=mod GOPROXY=off GOSUMDB=off GOTOOLCHAIN=local
SRC=$WT/_out/$V
[ -f $SRC/patch.diff ] || { echo "no patch in $SRC"; exit 2; }
cd $WT && git checkout -q -- . && git apply --check $SRC/patch.diff || { echo "$ID: patch does not apply"; exit 2; }
# demo without the change
bash $SRC/demo/run.sh $WT > /tmp/seed-$ID-clean.log 2>&1; RC_CLEAN=$?
git apply $SRC/patch.diff
go1.26.8 build ./... > /tmp/seed-$ID-build.log 2>&1; RC_BUILD=$?
go1.26.8 test -vet=off -count=1 ./... > /tmp/seed-$ID-test.log 2>&1
FAILS=$(grep -E "^(FAIL|---  FAIL|--- FAIL)" /tmp/seed-$ID-test.log | grep -v "internal/test/t2" | grep -v "TestEmptyKeyword" | grep -vc "^FAIL$")
bash $SRC/demo/run.sh $WT > /tmp/seed-$ID-patched.log 2>&1; RC_PATCHED=$?
git checkout -q -- .
echo "$ID prop=$PROP build=$RC_BUILD extra_test_failures=$FAILS demo_clean=$RC_CLEAN demo_patched=$RC_PATCHED"
if [ $RC_BUILD -eq 0 ] && [ "$FAILS" = "0" ] && [ $RC_CLEAN -eq 0 ] && [ $RC_PATCHED -ne 0 ]; then
  mkdir -p /verif/seeded/$ID && cp -r $SRC/patch.diff $SRC/demo /verif/seeded/$ID/ && cp $SRC/NOTES.md /verif/seeded/$ID/NOTES.md 2>/dev/null
  echo "$ID CONFIRMED"
else
  echo "$ID NOT CONFIRMED (see /tmp/seed-$ID-*.log)"
fi
