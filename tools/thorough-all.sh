#!/bin/bash
# thorough-all.sh [seed...]: build vcheck in this checkout and run every thorough tier (evidence/replays go to ./ev, ./rp)
cd "$(dirname "$0")/.."
(cd sim && GOTOOLCHAIN=local GOPROXY=off GOSUMDB=off GOFLAGS=-mod=vendor /opt/veriftools/go1.26.8/bin/go build -o ../bin/vcheck ./cmd/vcheck) || exit 2
SEEDS="$@"; [ -z "$SEEDS" ] && SEEDS=1
for S in $SEEDS; do
  for P in C11 C03 C16 C17 C09; do
    /usr/bin/time -f "$P seed=$S wall=%es" env VERIF_SEED=$S VERIF_EVIDENCE_DIR=$PWD/ev VERIF_REPLAY_DIR=$PWD/rp ./bin/vcheck $P thorough 2>&1 | tail -4 | cut -c1-400
    echo "$P seed=$S exit=${PIPESTATUS[0]}"
  done
done
