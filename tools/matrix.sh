#!/bin/bash
# matrix.sh <tier> <outfile> [id...]: run each seeded change's property check against a scratch worktree carrying the change.
TIER=$1; OUT=$2; shift 2
BIN=${VCHECK:-/verif/bin/vcheck}
IDS="$@"; [ -z "$IDS" ] && IDS=$(ls /verif/seeded)
for ID in $IDS; do
  PROP=${ID%%-*}
  WT=/tmp/mx-$ID
  git -C /repo worktree add -q --detach $WT HEAD || continue
  if git -C $WT apply /verif/seeded/$ID/patch.diff 2>/dev/null || git -C $WT apply -3 /verif/seeded/$ID/patch.diff; then
    VERIF_REPO=$WT $BIN $PROP $TIER > /tmp/mx-$ID.log 2>&1; RC=$?
    echo "$ID $PROP $TIER exit=$RC viol=$(grep -c '^VIOLATION' /tmp/mx-$ID.log) :: $(grep -E '^violation class|^HARNESS' /tmp/mx-$ID.log | head -1 | cut -c1-260)" >> $OUT
  else
    echo "$ID patch does not apply" >> $OUT
  fi
  git -C /repo worktree remove --force $WT
done
echo DONE >> $OUT
