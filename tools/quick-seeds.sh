#!/bin/bash
# quick-seeds.sh seed...: every quick tier on the unchanged tree under several seeds (evidence/replays to ./ev, ./rp)
cd "$(dirname "$0")/.."
(cd sim && GOTOOLCHAIN=local GOPROXY=off GOSUMDB=off GOFLAGS=-mod=vendor /opt/veriftools/go1.26.8/bin/go build -o ../bin/vcheck ./cmd/vcheck) || exit 2
for S in "$@"; do
  for P in C03 C09 C11 C16 C17; do
    VERIF_SEED=$S VERIF_EVIDENCE_DIR=$PWD/ev VERIF_REPLAY_DIR=$PWD/rp ./bin/vcheck $P quick > out-$P-$S.log 2>&1
    echo "$P seed=$S exit=$? $(grep -c '^VIOLATION' out-$P-$S.log) violations; $(grep -E '^violation|HARNESS' out-$P-$S.log | head -2 | cut -c1-300)"
  done
done
