#!/bin/bash
# try-seeded.sh <seeded-id> <tier> <prop> [<prop>...]: apply the seeded change to /repo, run the checks, undo.
ID=$1; TIER=$2; shift 2
cd /repo && git diff --quiet || { echo "/repo is dirty"; exit 2; }
git apply /verif/seeded/$ID/patch.diff || exit 2
for P in "$@"; do
  /verif/bin/vcheck $P $TIER > /tmp/try-$ID-$P.log 2>&1; RC=$?
  echo "$ID $P $TIER exit=$RC $(grep -c '^VIOLATION' /tmp/try-$ID-$P.log) violation lines; $(grep -E '^violation class' /tmp/try-$ID-$P.log | head -2 | cut -c1-300)"
done
git -C /repo checkout -- .
