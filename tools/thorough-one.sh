#!/bin/bash
# thorough-one.sh <prop> [seed]: build vcheck in this checkout and run one thorough tier
cd "$(dirname "$0")/.."
(cd sim && GOTOOLCHAIN=local GOPROXY=off GOSUMDB=off GOFLAGS=-mod=vendor /opt/veriftools/go1.26.8/bin/go build -o ../bin/vcheck ./cmd/vcheck) || exit 2
/usr/bin/time -v env VERIF_SEED=${2:-1} VERIF_EVIDENCE_DIR=$PWD/ev VERIF_REPLAY_DIR=$PWD/rp ./bin/vcheck $1 thorough 2>&1
